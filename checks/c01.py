"""C01 -- adaptive solves meet the tolerance; fixed-step solves converge at order q+1.

End-to-end safety net.  Adaptive part: natural runs of the real solver, estimator, controller and
loop on IVPs with independently known solutions, with spurious rejections (F1), proposal jitter
(F2), checkpoint collisions (F3), final-time alignment incl. tiny clipped remainders (F4) and dt0
extremes incl. both dt0 helpers (F5).  Fixed-grid part: refinement h, h/2, h/4.
"""

import copy
import math

import jax.numpy as jnp
import mpmath as mp
import numpy as onp
from probdiffeq import ivpsolve

from sim import configs, embed, flowseam, scen, worlds
from sim.history import Recorder, digest_of

PROPERTY = "C01"
RUN_TIMEOUT_S = 900

# |error| <= K * (atol + rtol |u|).  Calibrated on the repaired tree (1 600-scenario batch, DESIGN.md §3 C01):
# first-order problems, regular histories: largest ratio 2.4; second-order formulations: 8.1.
K_TOL = 12.0
K_TOL_SECOND_ORDER = 50.0
TINY = 5e-2  # an accepted step below this fraction of its predecessor puts the run into the stress class
ORDER_SLACK = 1.0
MAX_ATTEMPTS = 600


def gen(src, tier):
    part = src.weighted("part", [("adaptive", 3), ("fixed", 1)])
    w = worlds.gen_world(src)
    wm = worlds.make(w["name"], w["par"])
    strategy = src.choice("strategy", ["filter", "fixedpoint", "fixedinterval"])
    cfg = configs.gen_config(src, strategy=strategy, qmax=6, priors=("iwp",), inits=("exact",), allow_damp=False,
                             allow_constraint_init=False, orders=(1,), lam_default=src.flip("lam_default", 0.6))
    cfg.update({"d": wm["d"], "order": wm["order"], "poly": wm["poly"].to_json(), "u0": wm["u0"], "du0": wm["du0"], "t0": 0.0})
    cfg["q"] = max(cfg["q"], wm["order"])
    cfg["lam"] = (cfg["lam"] * wm["d"])[: wm["d"]]
    if cfg["ssm"] == "isotropic":
        cfg["lam"] = [cfg["lam"][0]] * wm["d"]
    sc = {"part": part, "world": w, "cfg": cfg}
    q = cfg["q"]
    if part == "fixed":
        sc["n0"] = src.choice("n0", [8, 12, 16])
        sc["nonuniform"] = src.flip("nonuniform", 0.4)
        sc["jitter_seed"] = src.subseed("jit")
        if strategy == "fixedpoint":
            cfg["strategy"] = "fixedinterval"
        return sc
    lo = max(-9.0, -(q + 3.0))
    atol = 10 ** src.uniform("atol", lo, -2)
    rtol = atol if src.flip("same_tol", 0.4) else 10 ** src.uniform("rtol", lo, -2)
    sc.update({
        "atol": atol, "rtol": rtol, "eps": 1e-8,
        "dt0": src.weighted("dt0", [({"kind": "abs", "rel": 10 ** src.uniform("dt0", -6, 1)}, 3), ({"kind": "helper"}, 1),
                                    ({"kind": "helper_adaptive"}, 1)]),
        "clip": src.flip("clip", 0.3),
        "placements": [],
        "final": None,
        "control": {"kind": src.choice("ck", ["I", "PI"]), "safety": src.uniform("safety", 0.8, 0.99),
                    "factor_min": src.uniform("fmin", 0.1, 0.5), "factor_max": src.uniform("fmax", 2.0, 10.0)},
        "fault": {"seed": src.subseed("fseed"), "p_reject": src.choice("p_rej", [0.0, 0.0, 0.05, 0.2]),
                  "p_jitter": src.choice("p_jit", [0.0, 0.2]), "max_burst": 2},
        "error": {"kind": "residual", "relin": src.flip("erelin", 0.3)},
        "driver": "every_step" if strategy == "fixedinterval" else src.weighted("driver", [("save_at", 5), ("terminal", 1)]),
    })
    if sc["driver"] == "save_at":
        for _ in range(src.randint("n_cp", 0, 6)):
            kind = src.weighted("cp_kind", [("abs", 3), ("end", 3), ("multi", 1)])
            if kind == "abs":
                sc["placements"].append({"kind": "abs", "frac": src.uniform("frac", 0.02, 0.98)})
            elif kind == "end":
                sc["placements"].append({"kind": "end", "k": src.randint("k", 0, 30),
                                         "off": src.choice("off", [0.0, 0.5, -0.5, 2.0, -2.0, "ulp", "-ulp"])})
            else:
                sc["placements"].append({"kind": "multi", "k": src.randint("k", 0, 30), "n": src.randint("n", 2, 3)})
    if src.flip("align_final", 0.35):
        sc["final"] = {"k": src.randint("fk", 1, 30), "rel": src.choice("frel", [0.0, 1e-12, 1e-10, 1e-8, 1e-6, 1e-4, 1e-2, 1e-1])}
    return sc


def build_problem(sc):
    w = sc["world"]
    wm = worlds.make(w["name"], w["par"])
    b = configs.build(sc["cfg"], with_ref=False)
    return wm, b


def exact_at(wm, t):
    if not math.isfinite(float(t)):
        return onp.full((len(wm["u0"]) if "u0" in wm else 1,), onp.nan)
    return onp.array([float(v) for v in wm["exact"](mp.mpf(float(t)))])


def dt0_of(sc, b, wm, q):
    T = sc["world"]["T"]
    spec = sc["dt0"]
    if spec["kind"] == "abs":
        return float(spec["rel"] * T)
    u0 = jnp.asarray(wm["u0"], dtype=float)
    if spec["kind"] == "helper" and wm["order"] == 1:
        return float(ivpsolve.dt0(b.vf, (u0,), t=0.0))
    if spec["kind"] == "helper_adaptive" and wm["order"] == 1:
        return float(ivpsolve.dt0_adaptive(b.vf, (u0,), 0.0, error_contraction_rate=q, rtol=sc["rtol"], atol=sc["atol"]))
    return 0.05 * T


def natural(b, sc, save_at, dt0, clip, driver, rec=None, fault=True):
    return scen.run_natural(b, save_at, atol=sc["atol"], rtol=sc["rtol"], dt0=dt0, clip=clip, eps=sc["eps"], driver=driver,
                            error_spec=sc["error"], control_spec=sc["control"], fault=dict(sc["fault"]) if fault else None,
                            rec=rec, budget=4 * MAX_ATTEMPTS)


def exec_adaptive(sc):
    wm, b = build_problem(sc)
    cfg = sc["cfg"]
    q, d = cfg["q"], cfg["d"]
    T = sc["world"]["T"]
    eps = sc["eps"]
    dt0 = dt0_of(sc, b, wm, q)
    viol, probes, faults, incon, stats = [], {}, {}, [], {}
    if not (dt0 > 0 and math.isfinite(dt0)):
        # C18's subject; here simply fall back so that C01 is about the solve
        incon.append("dt0_helper_not_positive")
        dt0 = 0.05 * T
    driver = sc["driver"]
    # ---- two-pass placement (F3 / F4)
    need = sc["final"] is not None or any(p["kind"] != "abs" for p in sc["placements"])
    ends = []
    if need:
        try:
            rp = natural(b, sc, [0.0, T], dt0, False, "save_at")
        except flowseam.StepBudgetExceeded:
            return None, ["budget"], {}, {}, {}, "", 0, 0
        acc = rp.accepted
        ends = [t + h for t, h in acc]
        if len(rp.err.log) > MAX_ATTEMPTS:
            return None, ["budget"], {}, {}, {}, "", 0, 0
    if sc["final"] is not None and ends:
        k = min(sc["final"]["k"], len(ends) - 1)
        hk = ends[k] - (ends[k - 1] if k > 0 else 0.0)
        Tn = ends[k] + sc["final"]["rel"] * hk
        if Tn > 0.05:
            T = float(Tn)
            faults["F4_final_time_aligned"] = 1
    cps = []
    for p in sc["placements"]:
        if p["kind"] == "abs":
            cps.append(p["frac"] * T)
        elif ends:
            inside = [e for e in ends if e < T]
            if not inside:
                continue
            k = min(p["k"], len(inside) - 1)
            if p["kind"] == "end":
                e = inside[k]
                if p["off"] == "ulp":
                    cps.append(e + math.ulp(e))
                elif p["off"] == "-ulp":
                    cps.append(e - math.ulp(e))
                else:
                    cps.append(e + p["off"] * eps)
            else:
                a = inside[k - 1] if k > 0 else 0.0
                cps += [a + (inside[k] - a) * (i + 1) / (p["n"] + 1) for i in range(p["n"])]
    cps = sorted({c for c in cps if 10 * eps < c < T - 10 * eps})
    save_at = [0.0] + (cps if driver == "save_at" else []) + [T]
    rec = Recorder()
    try:
        r = natural(b, sc, save_at, dt0, sc["clip"], driver, rec=rec)
    except flowseam.StepBudgetExceeded:
        return None, ["budget"], {}, {}, {}, rec.abstract_string(), 0, 0
    if r.attempts > MAX_ATTEMPTS:
        incon.append("budget")
    sol = r.sol
    ts = onp.atleast_1d(onp.asarray(sol.t, dtype=float))
    mean0 = onp.asarray(sol.u.mean[0], dtype=float).reshape(len(ts), -1) if ts.shape[0] > 1 or onp.asarray(sol.u.mean[0]).ndim > 1 else onp.asarray(sol.u.mean[0], dtype=float).reshape(1, -1)
    acc = r.accepted
    ratios = [acc[i][1] / acc[i - 1][1] for i in range(1, len(acc))]
    # the stress class: an accepted step below TINY of its predecessor -- or, at high order, below (1e-4)^(1/q) of it (the
    # recursion amplifies by (1/ratio)^q).  Calibrated on the failures observed in the fourth thorough pass, both q = 6,
    # TS0, fixed-point smoother, clipped steps in front of close checkpoints: one ratio of 0.066, and ratios 0.155 and
    # 0.21 in a row; in both the run needs 60 x smaller steps afterwards and ends non-finite
    tiny_thr = max(TINY, 1e-4 ** (1.0 / q))
    worst = 0.0
    for i, t in enumerate(ts):
        finite = bool(onp.isfinite(t) and onp.all(onp.isfinite(mean0[i])))
        if finite:
            u = exact_at(wm, t)
            err = onp.abs(mean0[i] - u) / (sc["atol"] + sc["rtol"] * onp.abs(u))
            ratio = float(onp.max(err))
            worst = max(worst, ratio)
        if not finite:  # (a NaN time would send the reference ODE solution into an endless loop)
            v = {"inv": "TOL-finite", "msg": f"non-finite solution at t={t:.6g}"}
            # finding predicate: dynamic calibration whose mean-only residual vanishes identically (scale exactly 0)
            zero_scale = any(op["op"] == "step" and not onp.all(onp.asarray(op["post"].output_scale, dtype=float) > 0)
                             for op in r.rs.ops)
            if cfg["calib"] == "dynamic" and zero_scale:
                v["finding"] = "KF-C01-dynamic-zero-residual"
                v["inv"] = "TOL-finite-dynamic-zero-residual"
            elif bool(ratios) and min(ratios) < tiny_thr and (cfg["lin"] == "ts0" or cfg["strategy"] != "filter" or min(ratios) < 1e-5):
                # the tiny-step finding in its extreme form: after an accepted step 1e-7 of its predecessor (clipped
                # remainder in front of a checkpoint) the run degrades until it overflows (q = 6 observed)
                v["finding"] = "KF-C01-tiny-step"
                v["inv"] = "TOL-finite-tiny-step"
                v["msg"] += f" after an accepted step {min(ratios):.1e} of its predecessor"
            viol.append(v)
            break
        if ratio > (K_TOL if cfg["order"] == 1 else K_TOL_SECOND_ORDER):
            # finding predicate: an accepted step much smaller than its predecessor (tiny clipped remainder or
            # post-burst step) -- before the failing output for filters with zeroth-order linearisation, anywhere
            # in the history for smoothers (the backward pass carries it to earlier outputs)
            tiny_before = [i2 for i2, (tt, hh) in enumerate(acc[1:], start=1) if ratios[i2 - 1] < tiny_thr and tt <= t + eps]
            tiny_any = bool(ratios) and min(ratios) < tiny_thr
            v = {"inv": "TOL", "msg": f"error at t={t:.6g} is {ratio:.1f} x (atol + rtol|u|) (atol={sc['atol']:.1e}, rtol={sc['rtol']:.1e}; {len(acc)} steps, min step ratio {min(ratios) if ratios else 1:.1e})"}
            extreme_before = [i2 for i2 in tiny_before if ratios[i2 - 1] < 1e-5]
            if (cfg["lin"] == "ts0" and tiny_before) or (cfg["strategy"] != "filter" and tiny_any) or extreme_before:
                # (first-order linearisation survives ratios down to 1e-4 in all runs so far; at 1e-7 -- a clipped
                # remainder of 2e-8 in front of a checkpoint -- it degrades in the same way: 20 x tolerance, 65 steps)
                v["finding"] = "KF-C01-tiny-step"
                v["inv"] = "TOL-tiny-step"
            elif cfg["calib"] in ("none", "mle") and float(wm.get("lipschitz", 1.0)) ** (q + 1) > 2.0 and \
                    ratio <= (K_TOL if cfg["order"] == 1 else K_TOL_SECOND_ORDER) * float(wm.get("lipschitz", 1.0)) ** (q + 1):
                # finding predicate: solver and solver_mle (whose calibration is applied after the run) step with the output scale
                # at 1, so the error estimate is blind to the size of the (q+1)-th derivative, which for a problem with
                # Lipschitz constant L grows like L^(q+1); solver_dynamic meets the tolerance on the same problems (0.1 x)
                v["finding"] = "KF-C01-uncalibrated-scale"
                v["inv"] = "TOL-uncalibrated-scale"
                v["msg"] += f"; time stepping with unit output scale ({cfg['calib']}), L^(q+1) = {float(wm.get('lipschitz', 1.0)) ** (q + 1):.0f}"
            else:
                # finding predicate: a solution component that has shrunk towards zero at the requested time while
                # atol << rtol |u| along the way: every step was controlled relative to the then-current |u|, so the
                # accumulated error is a modest multiple of atol + rtol max_{s<=t}|u(s)|, not of atol + rtol |u(t)|
                grid_s = onp.linspace(0.0, float(t), 33)
                upath = onp.max(onp.abs(onp.array([exact_at(wm, s_) for s_ in grid_s])), axis=0)
                ratio_path = float(onp.max(onp.abs(mean0[i] - u) / (sc["atol"] + sc["rtol"] * upath)))
                if ratio_path <= (K_TOL if cfg["order"] == 1 else K_TOL_SECOND_ORDER) and onp.any(upath > 2.0 * onp.abs(u)):
                    v["finding"] = "KF-C01-relative-tolerance-shrinking-component"
                    v["inv"] = "TOL-shrinking-component"
                    v["msg"] += f"; {ratio_path:.1f} x (atol + rtol max|u| along the path)"
            viol.append(v)
            break
    stats["worst_ratio"] = worst
    stats["min_step_ratio"] = min(ratios) if ratios else 1.0
    probes["clipped_or_burst_step_ratio_below_1e-2"] = int(bool(ratios) and min(ratios) < 1e-2)
    probes["stress_class_step_ratio_below_5e-2"] = int(bool(ratios) and min(ratios) < TINY)
    probes["checkpoints"] = len(cps) if driver == "save_at" else 0
    probes["dt0_from_helper"] = int(sc["dt0"]["kind"] != "abs")
    probes["atol_ne_rtol"] = int(sc["atol"] != sc["rtol"])
    faults["F1_spurious_rejections"] = r.err.fired
    faults["F2_proposal_jitter"] = r.ctrl.fired
    faults["F3_checkpoints_relative_to_step_ends"] = sum(1 for p in sc["placements"] if p["kind"] != "abs") if ends else 0
    faults["F5_dt0_extreme"] = int(dt0 > T or dt0 < 1e-3 * T)
    return viol, incon, probes, faults, stats, rec.abstract_string(), r.attempts, len(acc)


def grids_for(sc, T):
    import random

    n0 = sc["n0"]
    rng = random.Random(sc["jitter_seed"])
    base = onp.linspace(0.0, T, n0 + 1)
    if sc["nonuniform"]:
        w = onp.array([1.0 + 0.3 * rng.uniform(-1, 1) for _ in range(n0)])
        base = onp.concatenate([[0.0], onp.cumsum(w)]) * (T / onp.sum(w))
    grids = [base]
    for _ in range(2):
        g = grids[-1]
        mid = 0.5 * (g[:-1] + g[1:])
        grids.append(onp.sort(onp.concatenate([g, mid])))
    return grids


def exec_fixed(sc):
    import warnings

    wm, b = build_problem(sc)
    cfg = sc["cfg"]
    q = cfg["q"]
    T = sc["world"]["T"]
    viol, stats = [], {}
    errs = []

    def error_on(g):
        with flowseam.stepped(budget=200_000), warnings.catch_warnings():
            warnings.simplefilter("ignore")
            sol = ivpsolve.solve_fixed_grid(solver=b.solver)(b.prior, grid=jnp.asarray(g), damp=0.0)
        mean0 = onp.asarray(sol.u.mean[0], dtype=float).reshape(len(g), -1)
        e = 0.0
        for i in range(1, len(g), max(1, len(g) // 16)):
            e = max(e, float(onp.max(onp.abs(mean0[i] - exact_at(wm, g[i])))))
        return max(e, float(onp.max(onp.abs(mean0[-1] - exact_at(wm, g[-1])))))

    grids = grids_for(sc, T)
    for g in grids:
        errs.append(error_on(g))
    floor = 1e-11 * (1 + max(abs(x) for x in exact_at(wm, T)))
    need = (q + 1) - (cfg["order"] - 1) - ORDER_SLACK

    def decide():
        orders = []
        for i in range(len(errs) - 1):
            e1, e2 = errs[i], errs[i + 1]
            if not (math.isfinite(e1) and math.isfinite(e2)):
                orders.append(float("-inf"))  # a non-finite error never confirms an order
            else:
                orders.append(math.log2(e1 / e2) if e2 > 0 and e1 > 0 else float("inf"))
        return orders, [o for o, e2 in zip(orders, errs[1:]) if not math.isfinite(e2) or e2 > floor]

    orders, usable = decide()
    # the statement is asymptotic: three levels can sit in the pre-asymptotic regime (error components of opposite sign
    # cancel on one grid and the order between neighbouring levels swings, e.g. 5.5, 4.1, 10.4 for q = 6).  Before an
    # order is declared missing, refine up to two more levels, as long as the errors stay above the rounding floor.
    while usable and max(orders) < need and len(errs) < 5 and math.isfinite(errs[-1]) and errs[-1] > floor and len(grids[-1]) <= 1200:
        g = grids[-1]
        grids.append(onp.sort(onp.concatenate([g, 0.5 * (g[:-1] + g[1:])])))
        errs.append(error_on(grids[-1]))
        orders, usable = decide()
    stats["errors"] = errs
    stats["orders"] = orders
    stats["levels"] = len(errs)
    if not usable:
        return viol, ["errors_at_rounding_level"], stats
    # a pair whose finer error is at rounding level can only under-state the order: it never refutes, but it may confirm
    best = max(usable + orders)
    stats["observed_order"] = max(-99.0, min(best, 99.0))
    # second-order formulations lose one order (the constraint acts on u''): measured q on the repaired tree
    if best < need:
        v = {"inv": "ORDER", "msg": f"fixed-grid errors {['%.2e' % e for e in errs]} under refinement h, h/2, h/4, ... give order {best:.2f} < {need} (q={q}, ODE order {cfg['order']}; {cfg['strategy']}, {cfg['ssm']}, {cfg['calib']}, {cfg['lin']})"}
        # finding predicate: dynamic calibration at q >= 5 amplifies errors step by step on fixed grids
        # (reproduced digit for digit by the 50-digit reference model => algorithmic, not a coding error)
        if cfg["calib"] == "dynamic" and q >= 5:
            v["finding"] = "KF-C01-dynamic-highorder-fixed-grid"
            v["inv"] = "ORDER-dynamic-highorder"
        elif cfg["strategy"] != "filter" and q >= 6:
            # the backward pass at q >= 6 amplifies rounding (C03 sees the same in the covariances)
            v["finding"] = "KF-C01-smoother-q6-rounding"
            v["inv"] = "ORDER-smoother-q6"
        viol.append(v)
    return viol, [], stats


def execute(sc):
    cfg = sc["cfg"]
    if sc["part"] == "fixed":
        viol, incon, stats = exec_fixed(sc)
        probes, faults, ab, attempts, nacc = {"fixed_grid_triples": 1}, {}, "F", 7 * sc["n0"], 7 * sc["n0"]
    else:
        viol, incon, probes, faults, stats, ab, attempts, nacc = exec_adaptive(sc)
        if viol is None:
            viol = []
    return {
        "violations": viol[:4],
        "status": "inconclusive" if incon and not viol else "ok",
        "inconclusive": incon,
        "stats": {"attempts": attempts, "accepted": nacc, "sim_time": float(sc["world"]["T"])},
        "probes": probes,
        "faults": faults,
        "worst": stats,
        "abstract": ab[:300],
        "abstract_key": digest_of([ab, sc["world"], sc.get("atol"), sc.get("n0")]),
        "nontrivial": True,
        "cell": f"{sc['part']}|{sc['world']['name']}|{cfg['ssm']}|{cfg['calib']}|{cfg['strategy']}|{cfg['lin']}|q{cfg['q']}",
        "mode": "stepped",
        "digest": digest_of([ab, stats]),
        "sample": {"part": sc["part"], "world": sc["world"], "cfg": {k: cfg[k] for k in ("ssm", "calib", "lin", "q", "strategy")},
                   "atol": sc.get("atol"), "rtol": sc.get("rtol"), "worst": stats, "history": ab[:80]},
    }


def shrink_candidates(sc):
    if sc["part"] == "fixed":
        if sc["nonuniform"]:
            c = copy.deepcopy(sc)
            c["nonuniform"] = False
            yield c
    else:
        for i in range(len(sc["placements"])):
            c = copy.deepcopy(sc)
            del c["placements"][i]
            yield c
        if sc["fault"]["p_reject"] or sc["fault"]["p_jitter"]:
            c = copy.deepcopy(sc)
            c["fault"]["p_reject"] = 0.0
            c["fault"]["p_jitter"] = 0.0
            yield c
        if sc["final"] is not None:
            c = copy.deepcopy(sc)
            c["final"] = None
            yield c
        if sc["clip"]:
            c = copy.deepcopy(sc)
            c["clip"] = False
            yield c
        if sc["dt0"]["kind"] != "abs" or sc["dt0"].get("rel") != 0.05:
            c = copy.deepcopy(sc)
            c["dt0"] = {"kind": "abs", "rel": 0.05}
            yield c
        if sc["atol"] != sc["rtol"]:
            c = copy.deepcopy(sc)
            c["rtol"] = sc["atol"]
            yield c
    cfg = sc["cfg"]
    for k, v in {"calib": "none", "lin": "ts0", "ssm": "dense", "strategy": "filter"}.items():
        if cfg[k] != v:
            c = copy.deepcopy(sc)
            c["cfg"][k] = v
            if k == "strategy" and c.get("driver") == "every_step":
                c["driver"] = "save_at"
            yield c
