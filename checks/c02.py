"""C02 -- filter posterior equals the exact Gaussian posterior (EKF) of the linearised model.

The real solver is fed a seeded schedule op by op (fixed grids through solve_fixed_grid on the
stepped scan; forced adaptive histories with rejected attempts through the real loop and
history-forcing peers).  Oracle: step-local refinement against the 50-digit reference applied to
the REAL pre-state of every operation, plus an end-to-end comparison of the whole trajectory.
"""

import copy

import jax.numpy as jnp
import numpy as onp
from probdiffeq import ivpsolve

from sim import compare, configs, embed, flowseam
from sim.history import Recorder, digest_of
from sim.peers import ForcedCtrl, ForcedErr, RecSolver, gen_script
from sim.refmodel import mpf

PROPERTY = "C02"
RUN_TIMEOUT_S = 600


def gen(src, tier):
    cfg = configs.gen_config(src, strategy="filter", priors=("iwp", "iwp", "ioup", "matern"),
                             inits=("exact", "exact", "inexact", "diffuse", "partial"))
    q = cfg["q"]
    hi = q >= 7
    hb = 10 ** (src.uniform("hb", -1.7, -0.6) if hi else src.uniform("hb", -2.3, -0.3))
    nsteps = src.randint("nsteps", 3, 7)
    schedule = src.weighted("schedule", [("fixed", 1), ("forced", 1)])
    rel_lo = 0.3 if hi else src.choice("rel_lo", [0.3, 0.1, 0.02])
    script = gen_script(src, nsteps, hb, p_reject=0.5 if schedule == "forced" else 0.0, rel_lo=rel_lo)
    for s in script:  # property region: steps in [1e-3, 1]
        s[-1] = float(min(1.0, max(1e-3, s[-1])))
    return {"cfg": cfg, "schedule": schedule, "script": script, "overstep": src.uniform("overstep", 0.1, 0.9)}


def run_real(sc, b):
    cfg = sc["cfg"]
    rec = Recorder()
    rs = RecSolver(b.solver, rec)
    script = sc["script"]
    accs = [s[-1] for s in script[:-1]]
    damp = cfg["damp"]
    with flowseam.stepped(budget=20_000):
        if sc["schedule"] == "fixed":
            grid = onp.concatenate([[b.t0], b.t0 + onp.cumsum(accs)])
            sol = ivpsolve.solve_fixed_grid(solver=rs)(b.prior, grid=jnp.asarray(grid), damp=damp)
            err = None
        else:
            ends = b.t0 + onp.cumsum(accs)
            T = float(ends[-1] - sc["overstep"] * accs[-1])
            err = ForcedErr(script, rec)
            solve = ivpsolve.solve_adaptive_save_at(solver=rs, error=err, control=ForcedCtrl(script),
                                                    while_loop=flowseam.py_while)
            sol = solve(b.prior, save_at=jnp.asarray([b.t0, T]), atol=1e-3, rtol=1e-3, dt0=script[0][0], damp=damp)
    return rs, err, sol, rec


def local_checks(b, rs, viol, stats):
    """Step-local refinement for every op the real solver executed."""
    cfg = b.cfg
    q, d = cfg["q"], cfg["d"]
    model = b.model
    # init
    op0 = rs.ops[0]
    m, P = embed.normal_np(op0["post"].u)
    mref, Pref = embed.vec_np(b.m0), embed.to_np(b.P0)
    e = float(onp.max(onp.abs(m - mref)) / (onp.max(onp.abs(mref)) + 1e-300))
    pe = float(onp.max(onp.abs(P - Pref)) / (onp.max(onp.abs(Pref)) + 1e-300)) if onp.max(onp.abs(Pref)) > 0 else float(
        onp.max(onp.abs(P)))
    stats["max_init_err"] = max(e, pe)
    if e > 1e-9 or pe > 1e-7:
        viol.append({"inv": "EKF-init", "msg": f"initial state (incl. initial-constraint update) differs from the reference: mean {e:.2e} cov {pe:.2e}"})
    worst = {"mean": 0.0, "cov": 0.0, "scale": 0.0}
    prev_pre = None
    skipped = 0
    terms = []
    for op in rs.ops[1:]:
        if op["op"] != "step":
            continue
        pre, post, h = op["pre"], op["post"], op["dt"]
        m_pre, P_pre = embed.normal_np(pre.u)
        if not (onp.all(onp.isfinite(m_pre)) and onp.all(onp.isfinite(P_pre))):
            # the step that produced this state has been reported already (EKF-finite / the known finding); a
            # reference step from a non-finite state is meaningless
            stats["steps_from_nonfinite_state"] = stats.get("steps_from_nonfinite_state", 0) + 1
            continue
        mp_m, mp_P = embed.normal_mp(pre.u)
        st = model.step(mp_m, mp_P, mpf(float(pre.t)), mpf(h))
        m, P = embed.normal_np(post.u)
        em = compare.mean_err(m, embed.vec_np(st["m"]), q, d, h)
        ec = compare.cov_err(P, embed.to_np(st["P"]), embed.to_np(st["Ppred"]), (q, d, h))
        ill = compare.ill_conditioned(st["kappa"])
        # conditioning of the prediction itself (e.g. inexact initial std on all coefficients with tiny steps:
        # cond 1e17 observed): a square-root update loses about eps * sqrt(cond)
        kP = compare.corr_cond(embed.to_np(st["Ppred"]))
        stats["cond_pred_max"] = max(stats.get("cond_pred_max", 0.0), kP if kP != float("inf") else 1e32)
        tol_m = compare.cond_tol(compare.TOL_LOCAL_MEAN, kP)
        tol_c = compare.cond_tol(compare.TOL_LOCAL_COV, kP, 1e4)
        if cfg["calib"] == "dynamic":
            tol_c = max(tol_c, 10 * compare.scale_tol(st["kappa"]))
            sref = onp.sqrt(embed.vec_np(st["s2"]))
            sreal = onp.atleast_1d(onp.asarray(post.output_scale, dtype=float))
            sref_c = sref if cfg["ssm"] == "blockdiag" else sref[:1]
            es = float(onp.max(onp.abs(sreal - sref_c) / sref_c))
            if ill:
                skipped += 1
            else:
                worst["scale"] = max(worst["scale"], es / compare.scale_tol(st["kappa"]))
                if es > compare.scale_tol(st["kappa"]):
                    viol.append({"inv": "EKF-scale", "msg": f"dynamic output scale differs from the documented local estimate: rel {es:.2e} (kappa {st['kappa']:.1e})",
                                 "t": float(pre.t), "h": h})
        worst["mean"] = max(worst["mean"], em)
        if em > tol_m:
            viol.append({"inv": "EKF-mean", "msg": f"posterior mean after one step differs from the reference EKF step: {em:.2e} (tol {tol_m:.1e})",
                         "t": float(pre.t), "h": h})
        if not (ill and cfg["calib"] == "dynamic"):
            worst["cov"] = max(worst["cov"], ec)
            if ec > tol_c:
                viol.append({"inv": "EKF-cov", "msg": f"posterior covariance after one step differs from the reference EKF step: {ec:.2e}",
                             "t": float(pre.t), "h": h})
        if not onp.all(onp.isfinite(m)) or not onp.all(onp.isfinite(P)):
            v = {"inv": "EKF-finite", "msg": "non-finite posterior"}
            # finding predicate (same root cause as KF-C01-dynamic-zero-residual): dynamic calibration whose mean-only
            # residual is exactly zero in floating point -- the calibrated scale is 0 (or NaN) and the update divides 0/0,
            # whereas the 50-digit recursion has a tiny positive scale and a finite posterior
            sc_out = onp.atleast_1d(onp.asarray(post.output_scale, dtype=float))
            if cfg["calib"] == "dynamic" and not onp.all(sc_out > 0):
                v = {"inv": "EKF-finite-dynamic-zero-residual", "finding": "KF-C02-dynamic-zero-residual",
                     "msg": f"non-finite posterior after a dynamically calibrated step whose output scale is {sc_out.tolist()} (kappa {float(st['kappa']):.1e})"}
            viol.append(v)
        # a retry must start from the untouched state
        if prev_pre is not None and float(prev_pre.t) == float(pre.t):
            a, A_ = embed.normal_np(prev_pre.u)
            if not (onp.array_equal(a, embed.normal_np(pre.u)[0]) and onp.array_equal(A_, embed.normal_np(pre.u)[1])):
                viol.append({"inv": "RETRY-state", "msg": "a retried attempt did not start from the untouched state"})
            stats["retries"] = stats.get("retries", 0) + 1
        prev_pre = pre
        if len(viol) > 6:
            break
    stats["skipped_ill_conditioned"] = skipped
    stats["worst_local_mean"] = worst["mean"]
    stats["worst_local_cov"] = worst["cov"]
    return worst


def e2e_checks(sc, b, rs, err, sol, viol, stats):
    cfg = b.cfg
    q, d = cfg["q"], cfg["d"]
    accs = [s[-1] for s in sc["script"][:-1]]
    if sc["schedule"] == "fixed":
        hs = list(onp.diff(onp.asarray(sol.t, dtype=float)))
    else:
        hs = [dt for (_, dt, ok) in err.log if ok]
    hist = configs.ref_history(b, hs)
    kap = max(st["kappa"] for st in hist[1:])
    s2 = b.model.mle_scale2(hist) if cfg["calib"] == "mle" else None
    ill = compare.ill_conditioned(kap)
    if sc["schedule"] == "fixed":
        pts = list(range(1, len(hs) + 1))
    else:
        pts = []  # the single checkpoint is an interpolation: C05's business; compare the scale only
    for k in pts:
        # once a step's residual has cancelled completely (1e3 eps kappa > 1e-2: its float64 value is rounding noise, and
        # the gain that multiplies it is of order h^-q) the library's and the reference's trajectories are two different
        # realisations of that noise -- observed 0.3 apart after five steps of 0.01 with q = 6 and 1e-6 initial std on all
        # coefficients, while every single step agrees to 4e-10 from the library's own pre-state (the step-local part)
        if compare.ill_conditioned(max(float(hist[j]["kappa"]) for j in range(1, k + 1))):
            stats["e2e_points_skipped_ill_conditioned"] = stats.get("e2e_points_skipped_ill_conditioned", 0) + len(pts) - pts.index(k)
            break
        m, P = embed.normal_np_at(sol.u, k)
        mref, Pref, Pp = hist[k]["m"], hist[k]["P"], hist[k]["Ppred"]
        scaled = cfg["calib"] in ("mle", "dynamic")
        if s2 is not None:
            Pref, Pp = b.model.scale_cov(Pref, s2), b.model.scale_cov(Pp, s2)
        em = compare.mean_err(m, embed.vec_np(mref), q, d, float(hs[k - 1]))
        ec = compare.cov_err(P, embed.to_np(Pref), embed.to_np(Pp), (q, d, float(hs[k - 1])))
        stats["worst_e2e_mean"] = max(stats.get("worst_e2e_mean", 0.0), em)
        tol_m = compare.TOL_GLOBAL_MEAN * max(1.0, 1e3 * compare.EPS * kap / 1e-8) if cfg["calib"] == "dynamic" else compare.TOL_GLOBAL_MEAN
        kPmax = stats.get("cond_pred_max", 1.0)
        tol_m = max(tol_m, 100 * compare.cond_tol(compare.TOL_LOCAL_MEAN, kPmax))
        if em > tol_m and not (ill and cfg["calib"] == "dynamic"):
            viol.append({"inv": "E2E-mean", "msg": f"trajectory mean at grid point {k} differs from the reference EKF: {em:.2e}"})
        if scaled and ill:
            continue
        tol_c = compare.TOL_GLOBAL_COV + (100 * compare.scale_tol(kap) if scaled else 0.0)
        tol_c = max(tol_c, 100 * compare.cond_tol(compare.TOL_LOCAL_COV, kPmax, 1e4))
        stats["worst_e2e_cov"] = max(stats.get("worst_e2e_cov", 0.0), ec)
        if ec > tol_c:
            viol.append({"inv": "E2E-cov", "msg": f"trajectory covariance at grid point {k} differs from the reference EKF: {ec:.2e} (tol {tol_c:.1e})"})
    # reported output scale
    osr = onp.asarray(sol.output_scale, dtype=float)
    if cfg["calib"] == "none":
        if not onp.all(osr == 1.0):
            viol.append({"inv": "E2E-scale", "msg": "uncalibrated solver reports an output scale different from one"})
    elif cfg["calib"] == "mle" and not ill:
        sref = onp.sqrt(embed.vec_np(s2))
        sref = sref if cfg["ssm"] == "blockdiag" else sref[:1]
        sreal = onp.atleast_1d(osr[-1])
        es = float(onp.max(onp.abs(sreal - sref) / sref))
        stats["mle_scale_err_units"] = es / compare.scale_tol(kap)
        if es > 10 * compare.scale_tol(kap):
            viol.append({"inv": "E2E-scale", "msg": f"MLE output scale differs from the documented estimator: rel {es:.2e} (kappa {kap:.1e})"})
    stats["kappa_max"] = kap
    return hist


def execute(sc):
    b = configs.build(sc["cfg"])
    rs, err, sol, rec = run_real(sc, b)
    viol, stats = [], {}
    local_checks(b, rs, viol, stats)
    if len(viol) <= 6:
        e2e_checks(sc, b, rs, err, sol, viol, stats)
    nstep = sum(1 for op in rs.ops if op["op"] == "step")
    nacc = len(sc["script"]) - 1
    ab = rec.abstract_string() if sc["schedule"] == "forced" else "F" * nacc
    m_last, _ = embed.normal_np_at(sol.u, -1)
    cfg = sc["cfg"]
    return {
        "violations": viol[:8],
        "stats": {"attempts": nstep, "accepted": nacc, "rejected": nstep - nacc if sc["schedule"] == "forced" else 0,
                  "sim_time": float(sum(s[-1] for s in sc["script"][:-1])), "ops_checked": nstep + 1,
                  "skipped_ill_conditioned": stats.get("skipped_ill_conditioned", 0)},
        "probes": {"retry_state_checked": stats.get("retries", 0), "q>=7": int(cfg["q"] >= 7),
                   "exponential_prior": int(cfg["prior"] != "iwp"), "constraint_init": int(cfg["constraint_init"]),
                   "diffuse_init": int(cfg["init"] == "diffuse"), "second_order": int(cfg["order"] == 2),
                   "damped": int(cfg["damp"] > 0), "step_ratio>=10": int(_max_ratio(sc) >= 10)},
        "faults": {"F10_rejected_attempts_between_steps": nstep - nacc if sc["schedule"] == "forced" else 0},
        "worst": {k: stats.get(k) for k in ("worst_local_mean", "worst_local_cov", "worst_e2e_mean", "worst_e2e_cov",
                                            "mle_scale_err_units", "kappa_max", "max_init_err")},
        "abstract": ab,
        "abstract_key": digest_of([ab, [round(s[-1], 6) for s in sc["script"]]]),
        "nontrivial": True,
        "cell": configs.cell_of(cfg) + "|" + sc["schedule"],
        "mode": "stepped",
        "digest": digest_of([rec.digest(), [float(x) for x in m_last]]),
        "sample": {"cfg": {k: cfg[k] for k in ("ssm", "calib", "lin", "q", "d", "order", "prior", "init", "damp")},
                   "schedule": sc["schedule"], "script": sc["script"], "history": ab},
    }


def _max_ratio(sc):
    a = [s[-1] for s in sc["script"][:-1]]
    return max([max(x / y, y / x) for x, y in zip(a, a[1:])] or [1.0])


def shrink_candidates(sc):
    n = len(sc["script"]) - 1
    if n > 1:
        for i in range(n):
            c = copy.deepcopy(sc)
            del c["script"][i]
            yield c
    for i, s in enumerate(sc["script"]):
        if len(s) > 1:
            c = copy.deepcopy(sc)
            c["script"][i] = [s[-1]]
            yield c
    cfg = sc["cfg"]
    simple = {"calib": "none", "prior": "iwp", "init": "exact", "damp": 0.0, "constraint_init": False, "lin": "ts0",
              "ssm": "dense"}
    for k, v in simple.items():
        if cfg[k] != v:
            c = copy.deepcopy(sc)
            c["cfg"][k] = v
            if k == "init":
                c["cfg"]["diffuse_derivatives"] = 0
                c["cfg"]["constraint_init"] = False
            if k == "ssm":
                pass
            yield c
    if cfg["q"] > cfg["order"]:
        c = copy.deepcopy(sc)
        c["cfg"]["q"] = cfg["q"] - 1
        if c["cfg"]["diffuse_derivatives"] and c["cfg"]["q"] - c["cfg"]["order"] < 1:
            c["cfg"]["diffuse_derivatives"] = 0
            c["cfg"]["init"] = "exact"
        yield c
    if sc["schedule"] == "forced":
        c = copy.deepcopy(sc)
        c["schedule"] = "fixed"
        c["script"] = [[s[-1]] for s in sc["script"]]
        yield c
