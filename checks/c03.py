"""C03 -- smoothing posterior equals the exact Rauch-Tung-Striebel posterior.

Habitats: fixed-interval smoother on solve_fixed_grid; fixed-interval on save-every-step adaptive
runs (forced or natural histories; last step overstepping, clipped exactly onto, or within eps of
the final time); fixed-point smoother with checkpoints.  Oracle: 50-digit reference RTS over the
node list (accepted step ends + output times) of the recorded history; checks marginals, the
returned backward factorisation (embedded from its fields), neighbouring and distant
cross-covariances, "smoothed <= filtered", and fixed-interval == fixed-point on a common grid.
"""

import copy

import jax.numpy as jnp
import numpy as onp
from probdiffeq import ivpsolve

from sim import compare, configs, embed, flowseam, scen
from sim.history import Recorder, digest_of
from sim.peers import RecSolver
from sim.refmodel import mpf

PROPERTY = "C03"
RUN_TIMEOUT_S = 900


def gen(src, tier):
    habitat = src.weighted("habitat", [("fixed_grid", 3), ("every_step", 3), ("fixedpoint", 4), ("fi_vs_fp", 1.5)])
    strategy = "fixedpoint" if habitat == "fixedpoint" else "fixedinterval"
    cfg = configs.gen_config(src, strategy=strategy, qmax=6, priors=("iwp", "iwp", "iwp", "ioup"),
                             inits=("exact", "exact", "inexact", "partial", "diffuse"))
    script = scen.gen_history(src, nsteps=(3, 6), p_reject=0.3 if habitat in ("every_step", "fixedpoint") else 0.0)
    n = len(script) - 1
    sc = {"cfg": cfg, "habitat": habitat, "script": script, "eps": src.loguniform("eps", 1e-10, 1e-6)}
    if habitat in ("every_step", "fixedpoint"):
        sc["final"] = scen.gen_final(src)
    if habitat == "fixedpoint":
        sc["placements"] = scen.gen_placements(src, n, n=(1, 4))
    if habitat == "every_step" and src.flip("natural", 0.35):
        sc["natural"] = {"tol": 10 ** src.uniform("tol", -6, -2), "dt0": 10 ** src.uniform("dt0", -2.5, -0.5),
                         "T": src.uniform("T", 0.3, 1.0), "clip": src.flip("nclip", 0.3)}
    return sc


# ---------------------------------------------------------------------------------------------


def check_outputs(b, sol, hist, times, eps, viol, stats, *, label, compare_first=True):
    """Marginals, backward factorisation and cross-covariances of a smoothing solution against the
    reference RTS over the node list."""
    cfg = b.cfg
    q, d = cfg["q"], cfg["d"]
    nodes, idx, cls, borderline = scen.build_nodes(b, hist, times, eps)
    if borderline:
        return "borderline"
    sm, G = scen.smooth_nodes(nodes)
    s2 = scen.final_scale2(b, hist)
    kap = max(st["kappa"] for st in hist[1:])
    scaled = cfg["calib"] in ("mle", "dynamic")
    if scaled and compare.ill_conditioned(kap):
        stats["skipped_ill_conditioned"] = stats.get("skipped_ill_conditioned", 0) + 1
        check_cov = False
    else:
        check_cov = True
    hmean = float(onp.mean([float(st["h"]) for st in hist[1:]]))
    tol_m = compare.TOL_GLOBAL_MEAN * (max(1.0, compare.scale_tol(kap) / 1e-8) if cfg["calib"] == "dynamic" else 1.0)
    # q >= 6: rounding in the backward pass is amplified (observed on the repaired tree: covariances up to
    # 2e-6, cross-covariances up to 4e-4; <= 1e-12 for q <= 5) -- "high-order" tolerance class, DESIGN.md §2.6
    hi = q >= 6
    # conditioning of the predicted covariances along the history: the backward gain solves with them
    kP = max([compare.corr_cond(embed.to_np(st["Ppred"])) for st in hist[1:]] + [1.0])
    stats["cond_pred_max"] = min(kP, 1e32)
    nk = (q, d, hmean)
    tol_m = max(tol_m, 100 * compare.cond_tol(compare.TOL_LOCAL_MEAN, kP))
    # a tiny step (e.g. the first natural step after dt0 = 0.006) leaves rounding noise eps |f| / h^k in the k-th
    # coefficient; a later step H weighs it with H^k / k!, i.e. eps (H / h)^k relative to its Nordsieck scale (observed:
    # q = 6, H / h = 36, terminal mean 7e-7 with kappa 9e16, covariances 2e-13)
    hs_all = [float(st["h"]) for st in hist[1:]]
    tol_m = max(tol_m, 1e3 * compare.EPS * (max(hs_all) / min(hs_all)) ** q)
    stats["tol_mean_max"] = max(stats.get("tol_mean_max", 0.0), tol_m)
    tol_c = (1e-4 if hi else compare.TOL_GLOBAL_COV) + (100 * compare.scale_tol(kap) if scaled else 0.0)
    tol_x = (1e-2 if hi else compare.TOL_GLOBAL_COV) + (100 * compare.scale_tol(kap) if scaled else 0.0)
    tol_c = max(tol_c, 100 * compare.cond_tol(compare.TOL_LOCAL_COV, kP, 1e4))
    tol_x = max(tol_x, 100 * compare.cond_tol(compare.TOL_LOCAL_COV, kP, 1e4))
    N = len(times)
    # Nordsieck yardstick per output: the size of the enclosing / just finished step
    hloc = [float(hist[max(1, min(nodes[j].get("step", 1) or 1, len(hist) - 1))]["h"]) for j in idx]
    worst_m = worst_c = worst_x = 0.0
    real = [embed.normal_np_at(sol.u, i) for i in range(N)]
    refs = []
    for i in range(N):
        ms, Ps = sm[idx[i]]
        Ps = scen.scale_node_cov(b, Ps, s2)
        nd = nodes[idx[i]]
        Pscale = scen.scale_node_cov(b, nd["Ppred"] if "Ppred" in nd else nd["P"], s2)
        refs.append((embed.vec_np(ms), embed.to_np(Ps), embed.to_np(Pscale)))
    for i in range(N):
        m, P = real[i]
        mr, Pr, Psc = refs[i]
        if i == 0 and not compare_first:
            continue
        em = compare.mean_err(m, mr, q, d, hloc[i])
        worst_m = max(worst_m, em)
        if em > tol_m:
            viol.append({"inv": "RTS-mean", "msg": f"[{label}] smoothed mean at output {i} (t={times[i]:.6g}, {cls[i][0]}) differs from the reference RTS posterior: {em:.2e}"})
        if check_cov and onp.max(onp.abs(onp.diag(Psc))) > 0:
            ec = compare.cov_err(P, Pr, Psc, (q, d, hloc[i]))
            worst_c = max(worst_c, ec)
            if ec > tol_c:
                viol.append({"inv": "RTS-cov", "msg": f"[{label}] smoothed covariance at output {i} (t={times[i]:.6g}) differs from the reference RTS posterior: {ec:.2e} (tol {tol_c:.1e})"})
        if not onp.all(onp.isfinite(m)) or not onp.all(onp.isfinite(P)):
            v = {"inv": "RTS-finite", "msg": f"[{label}] non-finite smoothing marginal at output {i}"}
            # finding predicate (root cause of KF-C01 / KF-C02-dynamic-zero-residual): dynamic calibration whose mean-only
            # residual cancels to exactly 0.0 -- some reported output scale is 0 or non-finite
            osc_ = onp.asarray(sol.output_scale, dtype=float)
            if cfg["calib"] == "dynamic" and not onp.all(osc_ > 0):
                v = {"inv": "RTS-finite-dynamic-zero-residual", "finding": "KF-C03-dynamic-zero-residual",
                     "msg": f"[{label}] non-finite smoothing marginal at output {i} after a dynamically calibrated step with output scale 0 / nan"}
            viol.append(v)
            break
    # the backward gain G = P^f Phi^T (Phi P^f Phi^T + Q)^-1 is an exact function of the library's own filtering state
    # (verified step-locally in 50 digits: 9e-13), so a forward-pass covariance error e re-appears in the gain -- and in the
    # cross-covariances -- multiplied by the conditioning of the predicted covariance it solves with (observed: e = 2.9e-8,
    # cond 1.5e6, cross-covariance 1.1e-2, unchanged under 1e-12 perturbations of the steps)
    tol_x = max(tol_x, 3.0 * min(kP, 1e16) * max(worst_c, 1e-10))
    stats["tol_crosscov_max"] = max(stats.get("tol_crosscov_max", 0.0), tol_x)
    # backward factorisation: conditional[i] is x_i | x_{i+1}
    post = sol.solution_full.posterior
    cond = post.conditional
    nc = onp.asarray(cond.A).shape[0]
    if nc != N - 1:
        viol.append({"inv": "RTS-factorisation", "msg": f"[{label}] posterior has {nc} backward conditionals for {N} output times"})
        return None
    mT, PT = embed.normal_np(post.marginal)
    e = compare.mean_err(mT, refs[-1][0], q, d, hmean)
    if e > tol_m:
        viol.append({"inv": "RTS-terminal", "msg": f"[{label}] terminal marginal of the posterior differs from the reference: {e:.2e}"})
    import jax.tree_util as tu

    As = []
    for i in range(N - 1):
        ci = tu.tree_map(lambda a: a[i], cond)
        A, bb, Q = embed.cond_np(ci)
        As.append(A)
        m_next, P_next = real[i + 1]
        m_i, P_i = real[i]
        # (1) the factorisation reproduces the returned marginals
        m_rec = A @ m_next + bb
        P_rec = A @ P_next @ A.T + Q
        Psc = refs[i][2] if onp.max(onp.abs(onp.diag(refs[i][2]))) > 0 else refs[i + 1][2]
        em = compare.mean_err(m_rec, m_i, q, d, hloc[i])
        if em > tol_m:
            viol.append({"inv": "RTS-factorisation", "msg": f"[{label}] backward conditional {i} does not reproduce the marginal mean at output {i}: {em:.2e}"})
        if check_cov and onp.max(onp.abs(onp.diag(Psc))) > 0:
            ec = compare.cov_err(P_rec, P_i, Psc, (q, d, hloc[i]))
            # the recombination A P A^T + Q is done here, in double, on the returned arrays: its terms can exceed the result
            # by many orders (backward gains ~ h^-q); rounding of the returned A alone perturbs the result by about
            # 1e-16 x the size of the terms (allowed: 1e-14 x), measured in the same norm
            amp = compare.cov_err(onp.abs(A) @ onp.abs(P_next) @ onp.abs(A).T + onp.abs(Q), onp.zeros_like(P_i), Psc, (q, d, hloc[i]))
            if ec > tol_c + 1e-14 * amp:
                viol.append({"inv": "RTS-factorisation", "msg": f"[{label}] backward conditional {i} does not reproduce the marginal covariance at output {i}: {ec:.2e} (tol {tol_c + 1e-14 * amp:.1e}, size of the terms {amp:.1e})"})
        # (2) neighbouring cross-covariance Cov(x_i, x_{i+1}) = G P^s_{i+1}
        if check_cov and idx[i + 1] > idx[i]:
            Gref = embed.to_np(scen.gain_between(G, idx[i], idx[i + 1]))
            Cref = Gref @ refs[i + 1][1]
            Creal = A @ P_next
            if onp.max(onp.abs(onp.diag(refs[i][2]))) > 0:
                ex = compare.cross_err(Creal, Cref, refs[i][2], refs[i + 1][2], nk)
                # size of the terms of the product A P (formed here, in double, from the returned arrays), same norm
                amp_x = compare.cross_err(onp.abs(A) @ onp.abs(P_next), onp.zeros_like(Cref), refs[i][2], refs[i + 1][2], nk)
                worst_x = max(worst_x, ex)
                stats["worst_crosscov_over_terms"] = max(stats.get("worst_crosscov_over_terms", 0.0), ex / max(amp_x, 1e-300))
                if ex > tol_x + 1e-14 * amp_x:
                    viol.append({"inv": "RTS-crosscov", "msg": f"[{label}] cross-covariance between outputs {i} and {i + 1} differs from the reference joint smoothing law: {ex:.2e} (tol {tol_x + 1e-14 * amp_x:.1e}, size of the terms {amp_x:.1e})"})
    # (3) one distant pair
    if check_cov and N >= 3 and idx[-1] > idx[0] and onp.max(onp.abs(onp.diag(refs[0][2]))) > 0:
        Achain = As[0]
        for A in As[1:]:
            Achain = Achain @ A
        Gref = embed.to_np(scen.gain_between(G, idx[0], idx[-1]))
        Cref = Gref @ refs[-1][1]
        Creal = Achain @ real[-1][1]
        ex = compare.cross_err(Creal, Cref, refs[0][2], refs[-1][2], nk)
        Aabs = onp.abs(As[0])
        for A in As[1:]:
            Aabs = Aabs @ onp.abs(A)
        amp_x = compare.cross_err(Aabs @ onp.abs(real[-1][1]), onp.zeros_like(Cref), refs[0][2], refs[-1][2], nk)
        if ex > 10 * tol_x + 1e-14 * amp_x:
            viol.append({"inv": "RTS-crosscov", "msg": f"[{label}] cross-covariance between the first and the last output differs from the reference: {ex:.2e}"})
    stats["worst_mean"] = max(stats.get("worst_mean", 0.0), worst_m)
    stats["worst_cov"] = max(stats.get("worst_cov", 0.0), worst_c)
    stats["worst_crosscov"] = max(stats.get("worst_crosscov", 0.0), worst_x)
    stats["kappa_max"] = kap
    return dict(nodes=nodes, idx=idx, cls=cls, refs=refs, real=real, tol_c=tol_c, check_cov=check_cov, hloc=hloc, qd=(q, d))


def check_vs_filtering(b, sol, info, times, viol, *, label, last_ends_at_T):
    """smoothed variances never exceed filtered ones; final marginal == filtering marginal when the
    last step ends exactly at the final time."""
    filt = sol.solution_full.filtering
    N = len(times)
    for i in range(N):
        mf, Pf = embed.normal_np_at(filt, i)
        ms, Ps = info["real"][i]
        vf, vs = onp.diag(Pf), onp.diag(Ps)
        # the yardstick of the covariance comparison (variances floored at 1e-12 x the largest Nordsieck-scaled one):
        # a variance of 1e-22 next to ones of 1e-6 carries only rounding noise
        scale = compare.floored_sd(info["refs"][i][2], (*info["qd"], info["hloc"][i])) ** 2 + 1e-300
        # same accuracy class as the covariance comparison itself (q >= 6 / ill-conditioned predictions: the backward
        # pass returns variances a few 1e-7 above the filtered ones where the exact ones are a few 1e-16 below)
        if info["check_cov"] and onp.any(vs > vf * (1 + 1e-9) + max(1e-7, info["tol_c"]) * scale):
            viol.append({"inv": "RTS-variance", "msg": f"[{label}] smoothed variance exceeds filtered variance at output {i}"})
    if last_ends_at_T:
        mf, Pf = embed.normal_np_at(filt, N - 1)
        ms, Ps = info["real"][-1]
        q, d = b.cfg["q"], b.cfg["d"]
        e = compare.mean_err(ms, mf, q, d, 0.1)
        if e > 1e-9:
            viol.append({"inv": "RTS-terminal", "msg": f"[{label}] final marginal differs from the filtering marginal although the last step ends at the final time: {e:.2e}"})


# ---------------------------------------------------------------------------------------------


def run_fixed_grid(b, accs):
    grid = onp.concatenate([[b.t0], b.t0 + onp.cumsum(accs)])
    rs = RecSolver(b.solver)
    import warnings

    with flowseam.stepped(budget=20_000), warnings.catch_warnings():
        warnings.simplefilter("ignore")
        sol = ivpsolve.solve_fixed_grid(solver=rs)(b.prior, grid=jnp.asarray(grid), damp=b.cfg["damp"])
    return sol, grid


def execute(sc):
    cfg = sc["cfg"]
    b = configs.build(cfg)
    eps = sc["eps"]
    viol, stats, probes, faults, incon = [], {}, {}, {}, []
    script = sc["script"]
    accs = [s[-1] for s in script[:-1]]
    hab = sc["habitat"]
    ab = ""
    nsteps = 0
    if hab == "fixed_grid":
        sol, grid = run_fixed_grid(b, accs)
        hs = list(onp.diff(onp.asarray(sol.t, dtype=float)))
        hist = configs.ref_history(b, hs)
        times = [float(x) for x in onp.asarray(sol.t)]
        info = check_outputs(b, sol, hist, times, eps, viol, stats, label="fixed grid")
        if isinstance(info, dict):
            check_vs_filtering(b, sol, info, times, viol, label="fixed grid", last_ends_at_T=True)
        ab = "F" * len(hs)
        nsteps = len(hs)
        probes["last_step_ends_exactly_at_T"] = 1
    elif hab == "fi_vs_fp":
        sol, grid = run_fixed_grid(b, accs)
        hs = list(onp.diff(onp.asarray(sol.t, dtype=float)))
        b2 = configs.build(cfg, strategy="fixedpoint", with_ref=False)
        script2 = [[float(h)] for h in hs] + [[float(hs[-1])]]
        r2 = scen.run_forced(b2, script2, [float(x) for x in grid], eps=eps)
        q, d = cfg["q"], cfg["d"]
        hist = configs.ref_history(b, hs)
        kap = max(st["kappa"] for st in hist[1:])
        if [round(x, 14) for _, x in r2.accepted] != [round(float(h), 14) for h in hs]:
            incon.append("fp_history_differs")
        else:
            for i in range(len(grid)):
                m1, P1 = embed.normal_np_at(sol.u, i)
                m2, P2 = embed.normal_np_at(r2.sol.u, i)
                em = compare.mean_err(m1, m2, q, d, float(onp.mean(hs)))
                Psc = embed.to_np(scen.scale_node_cov(b, hist[max(i, 1)]["Ppred"], scen.final_scale2(b, hist)))
                ec = compare.cov_err(P1, P2, Psc, (q, d, float(onp.mean(hs))))
                tol_c = compare.TOL_GLOBAL_COV + 100 * compare.scale_tol(kap)
                stats["worst_mean"] = max(stats.get("worst_mean", 0.0), em)
                if em > compare.TOL_GLOBAL_MEAN * max(1.0, compare.scale_tol(kap) / 1e-8):
                    viol.append({"inv": "FI-vs-FP", "msg": f"fixed-interval smoothing on the step grid differs from fixed-point smoothing with save_at = that grid (mean, output {i}): {em:.2e}"})
                    break
                if ec > tol_c and not compare.ill_conditioned(kap):
                    viol.append({"inv": "FI-vs-FP", "msg": f"fixed-interval vs fixed-point covariance at output {i}: {ec:.2e}"})
                    break
        ab = "F" * len(hs) + "|" + r2.rec.abstract_string()
        nsteps = 2 * len(hs)
        probes["fi_vs_fp_compared"] = 1
    else:
        driver = "every_step" if hab == "every_step" else "save_at"
        rec = Recorder()
        nat = sc.get("natural")
        if nat:
            clip = nat["clip"]
            save_at = [b.t0, b.t0 + nat["T"]]
            r = scen.run_natural(b, save_at, atol=nat["tol"], rtol=nat["tol"], dt0=nat["dt0"], clip=clip, eps=eps,
                                 driver=driver, rec=rec)
            T = save_at[-1]
        else:
            save_at, T, clip, classes = scen.resolve_layout(script, b.t0, sc.get("placements", []), sc["final"], eps)
            if driver == "every_step":
                save_at = [save_at[0], save_at[-1]]
            r = scen.run_forced(b, script, save_at, clip=clip, eps=eps, driver=driver, rec=rec)
            faults["F3_checkpoints_placed"] = len(save_at) - 2
            faults["F10_rejected_attempts"] = r.attempts - len(r.accepted)
        faults["F4_final_" + ("natural" if nat else sc["final"]["kind"])] = 1
        hs = [dt for _, dt in r.accepted]
        if len(hs) > 60:
            incon.append("too_many_steps")
        else:
            hist = configs.ref_history(b, hs)
            times = [float(x) for x in onp.asarray(r.sol.t)]
            end_T = float(hist[-1]["t"])
            last_at_T = abs(end_T - T) <= eps
            if driver == "every_step":
                # reported times are the step ends (+ the interpolated final time)
                pass
            info = check_outputs(b, r.sol, hist, times, eps, viol, stats, label=hab)
            if info == "borderline":
                incon.append("borderline")
            elif isinstance(info, dict):
                check_vs_filtering(b, r.sol, info, times, viol, label=hab, last_ends_at_T=last_at_T)
                kinds = [c[0] for c in info["cls"]]
                probes["checkpoint_within_eps_of_step_end"] = sum(1 for k, t in zip(kinds[1:-1], times[1:-1]) if k == "end") if driver == "save_at" else 0
                ins = [c[1] for c in info["cls"] if c[0] == "inside"]
                probes["two_checkpoints_in_one_step"] = int(len(ins) != len(set(ins)))
            if last_at_T:
                probes["last_step_ends_exactly_at_T"] = 1
            elif end_T > T:
                probes["last_step_oversteps_T"] = 1
        ab = rec.abstract_string()
        nsteps = r.attempts
    cell = configs.cell_of(cfg) + "|" + hab
    mlast, _ = embed.normal_np_at(sol.u if hab in ("fixed_grid", "fi_vs_fp") else r.sol.u, -1)
    return {
        "violations": viol[:8],
        "status": "inconclusive" if incon and not viol else "ok",
        "inconclusive": incon,
        "stats": {"attempts": nsteps, "accepted": len(accs), "sim_time": float(sum(accs)),
                  "skipped_ill_conditioned": stats.get("skipped_ill_conditioned", 0)},
        "probes": probes,
        "faults": faults,
        "worst": {k: stats.get(k) for k in ("worst_mean", "worst_cov", "worst_crosscov", "kappa_max")},
        "abstract": ab,
        "abstract_key": digest_of([ab, hab, [round(a, 6) for a in accs]]),
        "nontrivial": True,
        "cell": cell,
        "mode": "stepped",
        "digest": digest_of([ab, [float(x) for x in mlast]]),
        "sample": {"cfg": {k: cfg[k] for k in ("ssm", "calib", "lin", "q", "d", "order", "prior", "init", "damp")},
                   "habitat": hab, "script": script, "final": sc.get("final"), "placements": sc.get("placements"),
                   "history": ab},
    }


def classify(sc, v):
    return None


def shrink_candidates(sc):
    n = len(sc["script"]) - 1
    if n > 2:
        for i in range(n):
            c = copy.deepcopy(sc)
            del c["script"][i]
            yield c
    for i, s in enumerate(sc["script"]):
        if len(s) > 1:
            c = copy.deepcopy(sc)
            c["script"][i] = [s[-1]]
            yield c
    for i in range(len(sc.get("placements", []))):
        c = copy.deepcopy(sc)
        del c["placements"][i]
        yield c
    if sc.get("natural"):
        c = copy.deepcopy(sc)
        del c["natural"]
        yield c
    cfg = sc["cfg"]
    simple = {"calib": "none", "prior": "iwp", "init": "exact", "damp": 0.0, "constraint_init": False, "lin": "ts0",
              "ssm": "dense", "order": 1}
    for k, v in simple.items():
        if cfg[k] != v and k != "order":
            c = copy.deepcopy(sc)
            c["cfg"][k] = v
            if k == "init":
                c["cfg"]["diffuse_derivatives"] = 0
                c["cfg"]["constraint_init"] = False
            yield c
    if cfg["q"] > max(cfg["order"], 1):
        c = copy.deepcopy(sc)
        c["cfg"]["q"] = cfg["q"] - 1
        yield c
