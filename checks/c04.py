"""C04 -- output-scale calibration is the documented estimator and is scale-equivariant.

(1) conservation over the history: the reported MLE scale is the RMS of the whitened residuals of
    exactly the accepted steps (rejected attempts never, the initial-constraint update once),
    each recomputed by the reference from the REAL pre-state of that step;
(2) dynamic: per-step local estimate, reported per output; uncalibrated: exactly one;
(3) returned covariances = unit-scale covariances (twin run of the uncalibrated solver on the
    same forced history) times the squared scale (per dimension for block-diagonal);
(4) twin runs with base scale c*Lambda (c = 2^k and general c): same means, same accepted step
    sequence, same calibrated covariances, estimated scale / c, uncalibrated std * c.
"""

import copy

import jax.numpy as jnp
import numpy as onp
from probdiffeq import ivpsolve

from sim import compare, configs, embed, flowseam, scen
from sim.history import Recorder, digest_of
from sim.peers import RecSolver
from sim.refmodel import mpf

PROPERTY = "C04"
RUN_TIMEOUT_S = 900


def gen(src, tier):
    kind = src.weighted("kind", [("conserve", 1), ("equivariance", 1)])
    if kind == "conserve":
        calib = src.weighted("calib", [("mle", 3), ("dynamic", 2), ("none", 1)])
        cfg = configs.gen_config(src, calib=calib, qmax=5, priors=("iwp",), inits=("exact", "exact", "inexact"))
        script = scen.gen_history(src, nsteps=(3, 7), p_reject=0.5)
        n = len(script) - 1
        return {"kind": kind, "cfg": cfg, "script": script, "eps": 1e-8,
                "final": scen.gen_final(src), "placements": scen.gen_placements(src, n, n=(0, 3))}
    cfg = configs.gen_config(src, qmax=5, priors=("iwp",), inits=("exact",), allow_damp=False, allow_constraint_init=False)
    cfg["damp"] = 0.0
    if src.flip("pow2", 0.5):
        c = 2.0 ** src.randint("k", -20, 20)
    else:
        c = 10 ** src.uniform("logc", -6, 6)
    routine = src.weighted("routine", [("adaptive", 3), ("fixed_grid", 1)])
    if cfg["strategy"] == "fixedpoint" and routine == "fixed_grid":
        cfg["strategy"] = "fixedinterval"
    sc = {"kind": kind, "cfg": cfg, "c": c, "routine": routine, "eps": 1e-8}
    if routine == "adaptive":
        sc["tol"] = 10 ** src.uniform("tol", -6, -2)
        sc["dt0"] = 10 ** src.uniform("dt0", -2.5, -0.5)
        sc["T"] = src.uniform("T", 0.3, 1.0)
        sc["ncp"] = src.randint("ncp", 0, 3)
        sc["control"] = {"kind": src.choice("ck", ["I", "PI"])}
        sc["error"] = {"kind": src.choice("ek", ["residual", "residual", "state"]), "relin": src.flip("erelin", 0.3)}
    else:
        sc["script"] = scen.gen_history(src, nsteps=(3, 7), p_reject=0.0)
    return sc


def scale_np(P, s, d):
    """P * outer(sc, sc) with sc = per-dimension scale tiled coefficient-major."""
    n = P.shape[0] // d
    s = onp.broadcast_to(onp.atleast_1d(s), (d,))
    v = onp.tile(s, n)
    return P * onp.outer(v, v)


def reported_scale(sol):
    osc = onp.asarray(sol.output_scale, dtype=float)
    return onp.atleast_1d(osc[-1])


def run_for(b, sc, script, save_at, clip, driver):
    return scen.run_forced(b, script, save_at, clip=clip, eps=sc["eps"], driver=driver, rec=Recorder())


def exec_conserve(sc):
    cfg = sc["cfg"]
    b = configs.build(cfg)
    d, q = cfg["d"], cfg["q"]
    viol, probes, stats = [], {}, {}
    save_at, T, clip, classes = scen.resolve_layout(sc["script"], b.t0, sc["placements"], sc["final"], sc["eps"])
    driver = "every_step" if cfg["strategy"] == "fixedinterval" else "save_at"
    if driver == "every_step":
        save_at = [save_at[0], save_at[-1]]
    r = run_for(b, sc, sc["script"], save_at, clip, driver)
    steps = [op for op in r.rs.ops if op["op"] == "step"]
    assert len(steps) == len(r.err.log)
    terms, kap = [], 0.0
    per_step_scale = []
    n_rej = 0
    for op, (t, dt, ok) in zip(steps, r.err.log):
        if not ok:
            n_rej += 1
            continue
        m, P = embed.normal_mp(op["pre"].u)
        st = b.model.step(m, P, mpf(float(op["pre"].t)), mpf(op["dt"]))
        terms.append(st["term2"])
        per_step_scale.append((st["s2"], st["kappa"], onp.atleast_1d(onp.asarray(op["post"].output_scale, dtype=float))))
        kap = max(kap, st["kappa"])
    N = len(terms)
    rep = reported_scale(r.sol)
    ill = compare.ill_conditioned(kap)
    if cfg["calib"] == "none":
        if not onp.all(onp.asarray(r.sol.output_scale) == 1.0):
            viol.append({"inv": "SCALE-one", "msg": "uncalibrated solver reports an output scale different from one"})
    elif cfg["calib"] == "mle":
        all_terms = ([b.init_term2] if b.init_term2 is not None else []) + terms
        s2 = [sum(tm[i] for tm in all_terms) / len(all_terms) for i in range(d)]
        if cfg["mle_correct"]:
            s2 = [x / N for x in s2]
        sref = onp.sqrt(onp.array([float(x) for x in s2]))
        sref = sref if cfg["ssm"] == "blockdiag" else sref[:1]
        es = float(onp.max(onp.abs(rep - sref) / sref))
        stats["scale_err_units"] = es / compare.scale_tol(kap)
        if not ill and es > 10 * compare.scale_tol(kap):
            # which single-step miscount would explain it?  (diagnostic only)
            viol.append({"inv": "MLE-conservation", "msg": f"reported MLE scale {rep.tolist()} differs from the RMS of the whitened residuals of the {N} accepted steps"
                         f"{' + initial-constraint update' if b.init_term2 is not None else ''} ({sref.tolist()}): rel {es:.2e} (kappa {kap:.1e}; {n_rej} rejected attempts in the history)"})
        osc = onp.asarray(r.sol.output_scale, dtype=float)
        if not onp.all(osc == osc[-1]):
            viol.append({"inv": "MLE-conservation", "msg": "MLE solver reports different scales at different output times"})
        probes["init_constraint_term_counted"] = int(b.init_term2 is not None)
    else:
        for (s2, kp, sreal) in per_step_scale:
            sref = onp.sqrt(onp.array([float(x) for x in s2]))
            sref = sref if cfg["ssm"] == "blockdiag" else sref[:1]
            es = float(onp.max(onp.abs(sreal - sref) / sref))
            if not compare.ill_conditioned(kp) and es > 10 * compare.scale_tol(kp):
                viol.append({"inv": "DYN-local", "msg": f"dynamic scale of an accepted step differs from the documented local estimate: rel {es:.2e} (kappa {kp:.1e})"})
                break
        # reported per output: the scale of the enclosing (or just finished) step
        osc = onp.asarray(r.sol.output_scale, dtype=float)
        times = [float(x) for x in onp.asarray(r.sol.t)]
        ends = list(b.t0 + onp.cumsum([dt for _, dt in r.accepted]))
        cls, borderline = scen.classify_times(times, ends, sc["eps"], b.t0)
        if not borderline and osc.shape[0] == len(times):
            for i, (kind_, k) in enumerate(cls):
                if kind_ == "t0":
                    continue
                want = per_step_scale[min(k, N - 1)][2]
                if not onp.allclose(onp.atleast_1d(osc[i]), want, rtol=1e-12, atol=0):
                    viol.append({"inv": "DYN-report", "msg": f"output {i} (t={times[i]:.6g}) reports scale {osc[i]} but its enclosing step was calibrated with {want}"})
                    break
    # (3) covariances = unit-scale covariances times scale^2
    if cfg["calib"] == "mle" and not viol:
        b1 = configs.build(cfg, calib="none", with_ref=False)
        r1 = run_for(b1, sc, sc["script"], save_at, clip, driver)
        if [x[:2] for x in r1.err.log] != [x[:2] for x in r.err.log]:
            viol.append({"inv": "COV-scaling", "msg": "uncalibrated twin run on the same forced history took different steps"})
        else:
            for i in range(len(onp.asarray(r.sol.t))):
                m0, P0 = embed.normal_np_at(r1.sol.u, i)
                m1, P1 = embed.normal_np_at(r.sol.u, i)
                em = compare.mean_err(m1, m0, q, d, float(onp.mean([dt for _, dt in r.accepted])))
                want = scale_np(P0, rep, d)
                hm = float(onp.mean([dt for _, dt in r.accepted]))
                ec = compare.self_cov_err(P1, want, q, d, hm) if onp.max(onp.abs(want)) > 0 else float(onp.max(onp.abs(P1)))
                if em > 1e-9:
                    viol.append({"inv": "COV-scaling", "msg": f"MLE calibration changed the mean at output {i}: {em:.2e}"})
                    break
                # two float64 evaluations of a covariance whose correlation matrix has condition number k agree to about
                # eps sqrt(k) (square-root arithmetic); observed 1.0e-9 at k = 1.2e14 (q = 5, d = 3, smoothed marginal at t0)
                tol_i = compare.cond_tol(1e-9, compare.corr_cond(want)) if onp.max(onp.abs(want)) > 0 else 1e-9
                if ec > tol_i:
                    viol.append({"inv": "COV-scaling", "msg": f"calibrated covariance at output {i} is not the unit-scale covariance times scale^2: {ec:.2e} (tol {tol_i:.1e})"})
                    break
            # smoothers also return the filtering marginals: same rule
            if cfg["strategy"] != "filter" and not viol:
                f1, f0 = r.sol.solution_full.filtering, r1.sol.solution_full.filtering
                hm = float(onp.mean([dt for _, dt in r.accepted]))
                for i in range(onp.asarray(r.sol.t).shape[0]):
                    m0, P0 = embed.normal_np_at(f0, i)
                    m1, P1 = embed.normal_np_at(f1, i)
                    want = scale_np(P0, rep, d)
                    ec = compare.self_cov_err(P1, want, q, d, hm) if onp.max(onp.abs(want)) > 0 else float(onp.max(onp.abs(P1)))
                    tol_i = compare.cond_tol(1e-9, compare.corr_cond(want)) if onp.max(onp.abs(want)) > 0 else 1e-9
                    if ec > tol_i or compare.mean_err(m1, m0, q, d, hm) > 1e-9:
                        viol.append({"inv": "COV-scaling", "msg": f"returned filtering marginal at output {i} is not the unit-scale one times scale^2: {ec:.2e}"})
                        break
                probes["filtering_marginals_compared"] = 1
            probes["unit_scale_twin_compared"] = 1
    ab = r.rec.abstract_string()
    return viol, probes, stats, ab, r, {"F10_rejected_attempts": n_rej, "F3_checkpoints_placed": len(save_at) - 2}, [dt for _, dt in r.accepted]


def solve_natural(b, sc, save_at):
    driver = "every_step" if b.cfg["strategy"] == "fixedinterval" else "save_at"
    if driver == "every_step":
        save_at = [save_at[0], save_at[-1]]
    return scen.run_natural(b, save_at, atol=sc["tol"], rtol=sc["tol"], dt0=sc["dt0"], eps=sc["eps"], driver=driver,
                            error_spec=sc["error"], control_spec=sc["control"], rec=Recorder())


def solve_grid(b, accs):
    import warnings

    grid = onp.concatenate([[b.t0], b.t0 + onp.cumsum(accs)])
    with flowseam.stepped(budget=20_000), warnings.catch_warnings():
        warnings.simplefilter("ignore")
        sol = ivpsolve.solve_fixed_grid(solver=b.solver)(b.prior, grid=jnp.asarray(grid), damp=0.0)
    return sol


def exec_equivariance(sc):
    cfg = sc["cfg"]
    c = sc["c"]
    b1 = configs.build(cfg, with_ref=False)
    b2 = configs.build(cfg, lam=[c * x for x in cfg["lam"]], with_ref=False)
    d, q = cfg["d"], cfg["q"]
    viol, probes, stats, incon = [], {}, {}, []
    pow2 = (onp.log2(c) == onp.round(onp.log2(c)))
    if sc["routine"] == "adaptive":
        T = b1.t0 + sc["T"]
        cps = [b1.t0 + T_frac * sc["T"] for T_frac in [0.31, 0.55, 0.83][: sc["ncp"]]]
        save_at = [b1.t0] + cps + [T]
        r1 = solve_natural(b1, sc, save_at)
        r2 = solve_natural(b2, sc, save_at)
        s1, s2 = r1.sol, r2.sol
        borderline = any(abs(e[3] - 1.0) < 1e-5 for e in r1.err.log)
        h1 = [(e[0], e[1], e[2] >= 1.0) for e in r1.err.log]
        h2 = [(e[0], e[1], e[2] >= 1.0) for e in r2.err.log]
        # for c = 2^k the twin is bit-identical; for general c the error estimates agree to rounding x residual
        # conditioning, hence the step sizes only to about 1e-8
        RT = 1e-12 if pow2 else 1e-6
        same = (len(h1) == len(h2) and all(a[2] == b_[2] and abs(a[1] - b_[1]) <= RT * abs(a[1]) for a, b_ in zip(h1, h2)))
        if not same:
            if borderline and not pow2:
                incon.append("borderline")
            else:
                k = next((i for i, (a, b_) in enumerate(zip(h1, h2)) if a[2] != b_[2] or abs(a[1] - b_[1]) > RT * abs(a[1])), min(len(h1), len(h2)))
                viol.append({"inv": "EQUIV-history", "msg": f"rescaling the prior's base scale by c={c:.6g} changed the accepted/rejected step sequence at attempt {k}"})
        else:
            eps_ = [abs(a[3] / b_[3] - 1.0) for a, b_ in zip(r1.err.log, r2.err.log)]
            stats["max_error_power_rel_diff"] = max(eps_)
            if max(eps_) > (1e-12 if pow2 else 1e-6):
                viol.append({"inv": "EQUIV-history", "msg": f"acceptance quantity changed under rescaling of the base scale: rel {max(eps_):.2e}"})
        hmean = float(onp.mean([e[1] for e in r1.err.log]))
        steps_log = [(float(t_), float(dt_)) for (t_, dt_) in r1.accepted]
        ab = r1.rec.abstract_string()
        attempts = r1.attempts
        nacc = len(r1.accepted)
        probes["bitwise_same_history"] = int([(a[0], a[1]) for a in h1] == [(a[0], a[1]) for a in h2])
    else:
        accs = [s[-1] for s in sc["script"][:-1]]
        s1, s2 = solve_grid(b1, accs), solve_grid(b2, accs)
        hmean = float(onp.mean(accs))
        steps_log = []
        ab = "F" * len(accs)
        attempts = nacc = len(accs)
    if not viol and not incon:
        calib = cfg["calib"]
        o1, o2 = onp.asarray(s1.output_scale, dtype=float), onp.asarray(s2.output_scale, dtype=float)
        N = onp.asarray(s1.t).shape[0]
        tol = 1e-13 if pow2 else 1e-7
        # placement class (DESIGN.md §2.6): an output that lies within 1e-2 of a step length behind a step end (but not in
        # the eps window) is produced by an interpolation over a tiny sub-interval, whose backward transitions amplify
        # rounding by (h / delta)^q -- and a smoother carries that to every earlier output (observed: final time 5.8e-4 of
        # the last step behind its start, q = 5: twin means 1e-8 apart with acceptance quantities 3e-12 apart)
        irregular = False
        if steps_log and cfg["strategy"] != "filter" and not pow2:
            for t_i in onp.asarray(s1.t, dtype=float).reshape(-1)[1:]:
                for (t_, dt_) in steps_log:
                    delta = float(t_i) - t_
                    if sc["eps"] < delta < 1e-2 * dt_ or sc["eps"] < (t_ + dt_ - float(t_i)) < 1e-2 * dt_:
                        irregular = True
        if irregular:
            probes["smoother_output_in_irregular_placement_class"] = 1
        for i in range(N if not irregular else 0):
            m1, P1 = embed.normal_np_at(s1.u, i)
            m2, P2 = embed.normal_np_at(s2.u, i)
            # Nordsieck yardstick: the step enclosing this output (a checkpoint inside a first step 20x smaller than the
            # mean step would over-weight the q-th coefficient by 20^q -- observed 4.3e-7 "difference" at q = 5)
            h_i = hmean
            if steps_log:
                t_i = float(onp.asarray(s1.t, dtype=float).reshape(-1)[i])
                enclosing = [dt_ for (t_, dt_) in steps_log if t_ - 1e-12 <= t_i <= t_ + dt_ + 1e-12]
                if enclosing:
                    h_i = min(enclosing)
            em = compare.mean_err(m2, m1, q, d, h_i)
            stats["worst_mean"] = max(stats.get("worst_mean", 0.0), em)
            tol_i = tol
            if em > max(tol_i, 1e-11):
                viol.append({"inv": "EQUIV-mean", "msg": f"posterior mean at output {i} changed under rescaling of the base scale by c={c:.6g}: {em:.2e}"})
                break
            fac = c * c if calib == "none" else 1.0
            if onp.max(onp.abs(P1)) > 0:
                ec = compare.self_cov_err(P2, fac * P1, q, d, h_i)
                stats["worst_cov"] = max(stats.get("worst_cov", 0.0), ec)
                if ec > max(100 * tol_i, 1e-7):
                    what = "uncalibrated covariance is not multiplied by c^2" if calib == "none" else "calibrated covariance changed"
                    viol.append({"inv": "EQUIV-cov", "msg": f"{what} at output {i} (c={c:.6g}): {ec:.2e}"})
                    break
        if calib in ("mle", "dynamic") and not viol:
            a, b_ = o1.reshape(-1), o2.reshape(-1)
            mask = (a > 0) & onp.isfinite(a) & (a != 1.0)
            if mask.any():
                er = float(onp.max(onp.abs(b_[mask] * c / a[mask] - 1.0)))
                stats["scale_ratio_err"] = er
                if er > max(100 * tol, 1e-7):
                    viol.append({"inv": "EQUIV-scale", "msg": f"estimated output scale is not divided by c={c:.6g}: rel {er:.2e}"})
        if calib == "none" and not (onp.all(o1 == 1.0) and onp.all(o2 == 1.0)):
            viol.append({"inv": "SCALE-one", "msg": "uncalibrated solver reports an output scale different from one"})
        n1, n2 = onp.asarray(s1.num_steps), onp.asarray(s2.num_steps)
        if not onp.array_equal(n1, n2):
            viol.append({"inv": "EQUIV-history", "msg": "step counts changed under rescaling of the base scale"})
        probes["pow2_bitwise_means"] = int(pow2 and onp.array_equal(onp.asarray(s1.u.mean_flat), onp.asarray(s2.u.mean_flat)))
    return viol, probes, stats, ab, incon, attempts, nacc


def execute(sc):
    cfg = sc["cfg"]
    incon = []
    if sc["kind"] == "conserve":
        viol, probes, stats, ab, r, faults, hs = exec_conserve(sc)
        attempts, nacc = r.attempts, len(r.accepted)
        key = [ab, [round(h, 6) for h in hs]]
        simt = float(sum(hs))
    else:
        viol, probes, stats, ab, incon, attempts, nacc = exec_equivariance(sc)
        faults = {"twin_run_rescaled_prior": 1, "c_power_of_two": int(onp.log2(sc["c"]) % 1 == 0)}
        key = [ab, sc["c"]]
        simt = float(sc.get("T", 0.0)) or float(sum(s[-1] for s in sc.get("script", [[0.0]])[:-1]))
    return {
        "violations": viol[:8],
        "status": "inconclusive" if incon and not viol else "ok",
        "inconclusive": incon,
        "stats": {"attempts": attempts, "accepted": nacc, "sim_time": simt},
        "probes": probes,
        "faults": faults,
        "worst": stats,
        "abstract": ab[:300],
        "abstract_key": digest_of(key),
        "nontrivial": True,
        "cell": configs.cell_of(cfg) + "|" + sc["kind"] + ("|" + sc.get("routine", "") if sc["kind"] != "conserve" else ""),
        "mode": "stepped",
        "digest": digest_of([ab, stats]),
        "sample": {"kind": sc["kind"], "cfg": {k: cfg[k] for k in ("ssm", "calib", "lin", "q", "d", "order", "strategy", "init", "damp", "lam", "mle_correct")},
                   "c": sc.get("c"), "script": sc.get("script"), "history": ab[:120]},
    }


def shrink_candidates(sc):
    if sc.get("script"):
        n = len(sc["script"]) - 1
        if n > 2:
            for i in range(n):
                c = copy.deepcopy(sc)
                del c["script"][i]
                yield c
        for i, s in enumerate(sc["script"]):
            if len(s) > 1:
                c = copy.deepcopy(sc)
                c["script"][i] = [s[-1]]
                yield c
    for i in range(len(sc.get("placements", []))):
        c = copy.deepcopy(sc)
        del c["placements"][i]
        yield c
    if sc.get("ncp"):
        c = copy.deepcopy(sc)
        c["ncp"] = 0
        yield c
    cfg = sc["cfg"]
    simple = {"prior": "iwp", "init": "exact", "damp": 0.0, "constraint_init": False, "lin": "ts0", "ssm": "dense",
              "strategy": "filter"}
    for k, v in simple.items():
        if cfg[k] != v:
            c = copy.deepcopy(sc)
            c["cfg"][k] = v
            if k == "init":
                c["cfg"]["diffuse_derivatives"] = 0
                c["cfg"]["constraint_init"] = False
            yield c
    if cfg["q"] > max(cfg["order"], 1):
        c = copy.deepcopy(sc)
        c["cfg"]["q"] = cfg["q"] - 1
        yield c
    if sc.get("c") and sc["c"] != 2.0:
        c = copy.deepcopy(sc)
        c["c"] = 2.0
        yield c
