"""C05 -- checkpoint values do not depend on the checkpoint set; they interpolate exactly.

Checkpoints are "interrupts" inserted into a fixed step history.  Pass 1 runs with A = {t0, T}
and records the step ends; pass 2 builds B (superset) by F3 relative to those ends; a third run
uses a random A' with A < A' < B.  Oracles: bitwise history equality, equality of values at
common checkpoints, reference interpolation of the recorded history, after-the-fact offgrid
marginals of a save-every-step run, and the terminal-value routine.
"""

import copy

import jax.numpy as jnp
import numpy as onp

from sim import compare, configs, embed, scen
from sim.history import Recorder, digest_of

PROPERTY = "C05"
RUN_TIMEOUT_S = 900


def gen(src, tier):
    strategy = src.choice("strategy", ["filter", "fixedpoint", "fixedpoint"])
    cfg = configs.gen_config(src, strategy=strategy, qmax=5, priors=("iwp", "iwp", "iwp", "ioup"),
                             inits=("exact", "exact", "inexact"))
    natural = src.flip("natural", 0.4)
    sc = {"cfg": cfg, "eps": src.loguniform("eps", 1e-10, 1e-6)}
    if natural:
        sc["natural"] = {"tol": 10 ** src.uniform("tol", -5, -2), "dt0": 10 ** src.uniform("dt0", -2.5, -0.5),
                         "T": src.uniform("T", 0.3, 0.9),
                         "fault": {"seed": src.subseed("fseed"), "p_reject": src.choice("p_rej", [0.0, 0.05, 0.2]),
                                   "p_jitter": src.choice("p_jit", [0.0, 0.2]), "max_burst": 2},
                         "control": {"kind": src.choice("ck", ["I", "PI"])}}
        sc["script"] = None
        nst = 8
    else:
        sc["script"] = scen.gen_history(src, nsteps=(3, 6), p_reject=0.4)
        nst = len(sc["script"]) - 1
        sc["final"] = src.weighted("final", [({"kind": "overstep", "frac": src.uniform("of", 0.1, 0.9)}, 4),
                                             ({"kind": "within_eps", "mult": src.choice("fm", [0.5, -0.5, 0.0])}, 1)])
    sc["placements"] = scen.gen_placements(src, nst, n=(2, 5), allow_near_miss=False)
    sc["subset_seed"] = src.subseed("subset")
    sc["extras"] = {"offgrid": src.flip("offgrid", 0.6), "terminal": src.flip("terminal", 0.5),
                    "terminal_clip": src.flip("tclip", 0.5)}
    return sc


def run_with(b, sc, save_at, rec=None, driver="save_at", clip=False):
    if sc.get("natural"):
        nat = sc["natural"]
        return scen.run_natural(b, save_at, atol=nat["tol"], rtol=nat["tol"], dt0=nat["dt0"], clip=clip, eps=sc["eps"],
                                driver=driver, fault=dict(nat["fault"]), control_spec=nat["control"], rec=rec)
    return scen.run_forced(b, sc["script"], save_at, clip=clip, eps=sc["eps"], driver=driver, rec=rec)


def history_of(r):
    return [(t.hex(), dt.hex(), bool(ok if isinstance(ok, bool) else ok >= 1.0)) for (t, dt, ok, *_) in r.err.log]


def values_at(b, sol, i):
    """(mean, cov, step count, output scale) at output i.  num_steps (and, except for the dynamic
    solver, output_scale) are reported for outputs 1..N-1 only."""
    m, P = embed.normal_np_at(sol.u, i)
    N = onp.asarray(sol.t).shape[0]
    i = i % N
    ns = onp.asarray(sol.num_steps)
    osc = onp.asarray(sol.output_scale, dtype=float)
    n_i = 0.0 if i == 0 else float(ns[i - 1] if ns.shape[0] == N - 1 else ns[i])
    if osc.shape[0] == N:
        o_i = osc[i]
    else:
        o_i = osc[max(i - 1, 0)]
    return m, P, n_i, onp.atleast_1d(o_i)


def execute(sc):
    import random

    cfg = sc["cfg"]
    b = configs.build(cfg)
    eps = sc["eps"]
    q, d = cfg["q"], cfg["d"]
    viol, probes, faults, incon, stats = [], {}, {}, [], {}
    # ---- pass 1: A = {t0, T}
    if sc.get("natural"):
        T = b.t0 + sc["natural"]["T"]
        A = [b.t0, T]
    else:
        A, T, _clip, _ = scen.resolve_layout(sc["script"], b.t0, [], sc["final"], eps)
    recA = Recorder()
    rA = run_with(b, sc, A, rec=recA)
    hs = [dt for _, dt in rA.accepted]
    if len(hs) > 60 or len(hs) < 1:
        return {"status": "inconclusive", "inconclusive": ["steps_out_of_bounds"], "violations": []}
    ends = list(b.t0 + onp.cumsum(hs))
    # ---- pass 2: B placed relative to the realised step ends
    script_like = [[float(h)] for h in hs] + [[float(hs[-1])]]
    Bfull, _, _, classes = scen.resolve_layout(script_like, b.t0, sc["placements"], {"kind": "overstep", "frac": 0.0}, eps)
    B = [b.t0] + [x for x in Bfull[1:-1] if x < T - 10 * eps] + [T]
    if len(B) < 3:
        incon.append("no_checkpoint_inserted")
    rng = random.Random(sc["subset_seed"])
    inner = B[1:-1]
    keep = [x for x in inner if rng.random() < 0.5]
    Ap = [b.t0] + keep + [T]
    recB = Recorder()
    rB = run_with(b, sc, B, rec=recB)
    rAp = run_with(b, sc, Ap) if 2 < len(Ap) < len(B) else None
    faults["F3_checkpoints_inserted"] = len(B) - 2
    faults["F1_spurious_rejections"] = rA.err.fired if sc.get("natural") else sum(1 for e in rA.err.log if not e[2])
    if sc.get("natural"):
        faults["F2_proposal_jitter"] = rA.ctrl.fired
    # ---- history equality (bitwise)
    hA = history_of(rA)
    for name, r in (("B", rB), ("A'", rAp)):
        if r is None:
            continue
        h = history_of(r)
        if h != hA:
            k = next((i for i, (x, y) in enumerate(zip(h, hA)) if x != y), min(len(h), len(hA)))
            viol.append({"inv": "HIST", "msg": f"attempt history with checkpoint set {name} differs from the history with A={{t0,T}} at attempt {k} (of {len(hA)})"})
    # ---- reference
    hist = configs.ref_history(b, hs)
    kap = max(st["kappa"] for st in hist[1:])
    scaled = cfg["calib"] in ("mle", "dynamic")
    ill = scaled and compare.ill_conditioned(kap)
    hmean = float(onp.mean(hs))
    smoother = cfg["strategy"] != "filter"
    nodes, idx, cls, borderline = scen.build_nodes(b, hist, B, eps)
    if borderline:
        incon.append("borderline")
    s2 = scen.final_scale2(b, hist)
    if smoother:
        sm, G = scen.smooth_nodes(nodes)
    # Nordsieck yardstick per checkpoint: the size of the enclosing step (a global mean step would overweight the
    # high coefficients of checkpoints that live in a much smaller step, e.g. right after a small dt0)
    hloc = [float(hs[min(max(k, 0), len(hs) - 1)]) for (_, k) in cls]
    ref = []
    for i, t in enumerate(B):
        nd = nodes[idx[i]]
        mr, Pr = (sm[idx[i]] if smoother else (nd["m"], nd["P"]))
        Psc = nd["Ppred"] if "Ppred" in nd else nd["P"]
        ref.append((embed.vec_np(mr), embed.to_np(scen.scale_node_cov(b, Pr, s2)), embed.to_np(scen.scale_node_cov(b, Psc, s2))))
    tol_m_ref = compare.TOL_GLOBAL_MEAN * (max(1.0, compare.scale_tol(kap) / 1e-8) if cfg["calib"] == "dynamic" else 1.0)
    tol_c_ref = compare.TOL_GLOBAL_COV + (100 * compare.scale_tol(kap) if scaled else 0.0)
    kP = max([compare.corr_cond(embed.to_np(st["Ppred"])) for st in hist[1:]] + [1.0])
    tol_m_ref = max(tol_m_ref, 100 * compare.cond_tol(compare.TOL_LOCAL_MEAN, kP))
    tol_c_ref = max(tol_c_ref, 100 * compare.cond_tol(compare.TOL_LOCAL_COV, kP, 1e4))
    if cfg["strategy"] != "filter":
        # smoothed values pass through backward gains that solve with the predicted covariances: a forward-pass error
        # (1e-13 in well-conditioned runs) re-appears multiplied by cond(corr P-) (C03, DESIGN.md Appendix C); observed at
        # q = 5, d = 3: means 1.4e-7 at cond 2.6e7, covariances 1.6e-6 at cond 6.4e6
        tol_m_ref = max(tol_m_ref, 1e-12 * min(kP, 1e16))
        tol_c_ref = max(tol_c_ref, 1e-12 * min(kP, 1e16))
    tol_sub_m = compare.cond_tol(compare.TOL_LOCAL_MEAN, kP)
    tol_sub_c0 = compare.cond_tol(compare.TOL_LOCAL_COV, kP, 1e4)
    if not viol and not borderline:
        # ---- B against the reference interpolation
        for i, t in enumerate(B):
            m, P, ns, osc = values_at(b, rB.sol, i)
            mr, Pr, Psc = ref[i]
            em = compare.mean_err(m, mr, q, d, hloc[i])
            stats["worst_ref_mean"] = max(stats.get("worst_ref_mean", 0.0), em)
            if em > tol_m_ref and not ill:
                viol.append({"inv": "INTERP-mean", "msg": f"value at checkpoint {i} (t={t:.6g}, {cls[i][0]}, class {classes.get(t, 'end')}) differs from the exact interpolation of the step sequence: {em:.2e}"})
            if not ill and onp.max(onp.abs(onp.diag(Psc))) > 0:
                ec = compare.cov_err(P, Pr, Psc, (q, d, hloc[i]))
                stats["worst_ref_cov"] = max(stats.get("worst_ref_cov", 0.0), ec)
                if ec > tol_c_ref:
                    viol.append({"inv": "INTERP-cov", "msg": f"covariance at checkpoint {i} (t={t:.6g}, {cls[i][0]}) differs from the exact interpolation: {ec:.2e} (tol {tol_c_ref:.1e})"})
            kind, k = cls[i]
            want_steps = 0 if kind == "t0" else k + 1
            if ns != want_steps:
                viol.append({"inv": "STEPS", "msg": f"reported step count {ns} at checkpoint {i} (t={t:.6g}), expected {want_steps}"})
        # ---- subset / superset equality
        for name, r, S in (("A", rA, A), ("A'", rAp, Ap)):
            if r is None:
                continue
            for j, t in enumerate(S):
                i = B.index(t)
                m1, P1, n1, o1 = values_at(b, r.sol, j)
                m2, P2, n2, o2 = values_at(b, rB.sol, i)
                em = compare.mean_err(m1, m2, q, d, hloc[i])
                Psc = ref[i][2]
                ec = compare.cov_err(P1, P2, Psc, (q, d, hloc[i])) if onp.max(onp.abs(onp.diag(Psc))) > 0 else float(onp.max(onp.abs(P1 - P2)))
                stats["worst_subset_mean"] = max(stats.get("worst_subset_mean", 0.0), em)
                stats["worst_subset_cov"] = max(stats.get("worst_subset_cov", 0.0), ec)
                tol_sub_c = tol_sub_c0 * (10 if smoother else 1)
                if em > tol_sub_m:
                    viol.append({"inv": "SUBSET-mean", "msg": f"mean at t={t:.6g} with checkpoint set {name} differs from the superset's value: {em:.2e}"})
                if ec > tol_sub_c:
                    viol.append({"inv": "SUBSET-cov", "msg": f"covariance at t={t:.6g} with checkpoint set {name} differs from the superset's value: {ec:.2e}"})
                if n1 != n2:
                    viol.append({"inv": "SUBSET-steps", "msg": f"step count at t={t:.6g} differs between checkpoint sets ({n1} vs {n2})"})
                if not onp.allclose(o1, o2, rtol=1e-12, atol=0):
                    viol.append({"inv": "SUBSET-scale", "msg": f"output scale at t={t:.6g} differs between checkpoint sets ({o1} vs {o2})"})
        probes["subset_compared"] = int(rAp is not None)
    kinds = [c[0] for c in cls[1:-1]]
    probes["checkpoint_within_eps_of_step_end"] = kinds.count("end")
    ins = [c[1] for c in cls[1:-1] if c[0] == "inside"]
    probes["two_checkpoints_in_one_step"] = int(len(ins) != len(set(ins)))
    probes["rejection_before_checkpointed_step"] = int(any(not e[2] if isinstance(e[2], bool) else e[2] < 1.0 for e in rB.err.log))
    # ---- offgrid marginals of a save-every-step run at the same times
    if sc["extras"]["offgrid"] and not viol and not borderline:
        strat2 = "filter" if cfg["strategy"] == "filter" else "fixedinterval"
        b2 = configs.build(cfg, strategy=strat2, with_ref=False)
        r2 = run_with(b2, sc, [b.t0, T], driver="every_step")
        if history_of(r2) != hA:
            viol.append({"inv": "HIST", "msg": "attempt history of the save-every-step run differs from the checkpointed run"})
        else:
            tgrid = [float(x) for x in onp.asarray(r2.sol.t)]
            n_off = 0
            for i, t in enumerate(B[1:-1], start=1):
                if cls[i][0] != "inside":
                    continue
                if min(abs(t - g) for g in tgrid) < 1e-3 * hmean:
                    continue
                est = b2.solver.offgrid_marginals(jnp.asarray(t), solution=r2.sol)
                m1, P1 = embed.normal_np(est)
                m2, P2, _, _ = values_at(b, rB.sol, i)
                em = compare.mean_err(m1, m2, q, d, hloc[i])
                ec = compare.cov_err(P1, P2, ref[i][2], (q, d, hloc[i]))
                n_off += 1
                stats["worst_offgrid_mean"] = max(stats.get("worst_offgrid_mean", 0.0), em)
                if em > tol_m_ref and not ill:
                    viol.append({"inv": "OFFGRID-mean", "msg": f"offgrid marginal of the save-every-step run at t={t:.6g} differs from the checkpoint value: {em:.2e}"})
                if ec > tol_c_ref and not ill:
                    viol.append({"inv": "OFFGRID-cov", "msg": f"offgrid marginal covariance at t={t:.6g} differs from the checkpoint value: {ec:.2e}"})
            probes["offgrid_points_compared"] = n_off
    # ---- terminal-value routine == last entry of the checkpointed routine (same clip_dt)
    if sc["extras"]["terminal"] and not viol:
        clip = sc["extras"]["terminal_clip"]
        r3 = run_with(b, sc, [b.t0, T], driver="terminal", clip=clip)
        r4 = rA if not clip else run_with(b, sc, [b.t0, T], clip=True)
        m1, P1 = embed.normal_np(r3.sol.u)
        m2, P2, n2, o2 = values_at(b, r4.sol, -1)
        if not (onp.array_equal(m1, m2) and onp.array_equal(P1, P2)):
            em = compare.mean_err(m1, m2, q, d, hmean)
            if em > compare.TOL_LOCAL_MEAN or not onp.allclose(P1, P2, rtol=1e-9, atol=1e-300):
                viol.append({"inv": "TERMINAL", "msg": f"solve_adaptive_terminal_values differs from the last entry of solve_adaptive_save_at (clip_dt={clip}): {em:.2e}"})
        if float(onp.asarray(r3.sol.num_steps).reshape(-1)[-1]) != n2:
            viol.append({"inv": "TERMINAL", "msg": "terminal-value routine reports a different step count"})
        probes["terminal_compared"] = 1
    ab = recB.abstract_string()
    mlast, _ = embed.normal_np_at(rB.sol.u, -1)
    return {
        "violations": viol[:8],
        "status": "inconclusive" if incon and not viol else "ok",
        "inconclusive": incon,
        "stats": {"attempts": rA.attempts + rB.attempts, "accepted": len(hs), "sim_time": float(T - b.t0),
                  "solves": 2 + int(rAp is not None) + int(sc["extras"]["offgrid"]) + int(sc["extras"]["terminal"])},
        "probes": probes,
        "faults": faults,
        "worst": stats,
        "abstract": ab,
        "abstract_key": digest_of([ab, [round(h, 6) for h in hs]]),
        "nontrivial": len(B) > 2,
        "cell": configs.cell_of(cfg) + ("|natural" if sc.get("natural") else "|forced"),
        "mode": "stepped",
        "digest": digest_of([ab, [float(x) for x in mlast], hA[:50]]),
        "sample": {"cfg": {k: cfg[k] for k in ("ssm", "calib", "lin", "q", "d", "order", "prior", "init", "damp", "strategy")},
                   "A": A, "B": B, "A_prime": Ap, "classes": [c[0] for c in cls], "history": ab},
    }


def shrink_candidates(sc):
    for i in range(len(sc["placements"])):
        c = copy.deepcopy(sc)
        del c["placements"][i]
        yield c
    for key in ("offgrid", "terminal"):
        if sc["extras"][key]:
            c = copy.deepcopy(sc)
            c["extras"][key] = False
            yield c
    if sc.get("script"):
        n = len(sc["script"]) - 1
        if n > 2:
            for i in range(n):
                c = copy.deepcopy(sc)
                del c["script"][i]
                yield c
        for i, s in enumerate(sc["script"]):
            if len(s) > 1:
                c = copy.deepcopy(sc)
                c["script"][i] = [s[-1]]
                yield c
    if sc.get("natural"):
        f = sc["natural"]["fault"]
        if f["p_reject"] or f["p_jitter"]:
            c = copy.deepcopy(sc)
            c["natural"]["fault"]["p_reject"] = 0.0
            c["natural"]["fault"]["p_jitter"] = 0.0
            yield c
    cfg = sc["cfg"]
    simple = {"calib": "none", "prior": "iwp", "init": "exact", "damp": 0.0, "constraint_init": False, "lin": "ts0",
              "ssm": "dense"}
    for k, v in simple.items():
        if cfg[k] != v:
            c = copy.deepcopy(sc)
            c["cfg"][k] = v
            if k == "init":
                c["cfg"]["diffuse_derivatives"] = 0
                c["cfg"]["constraint_init"] = False
            yield c
    if cfg["q"] > max(cfg["order"], 1):
        c = copy.deepcopy(sc)
        c["cfg"]["q"] = cfg["q"] - 1
        yield c
