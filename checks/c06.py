"""C06 -- adaptive step control is safe for every accept/reject history.

Real loop (solve_adaptive_save_at / solve_adaptive_terminal_values / RejectionLoop via
test_util.solve_adaptive_save_every_step) and real controllers; scripted Solver and
ErrorEstimator peers; invariants I1..I8 evaluated online by sim.stubworld.World.
"""

import copy
import math

import jax
import jax.numpy as jnp
import numpy as onp
from probdiffeq import ivpsolve
from probdiffeq.util import test_util

from sim import flowseam
from sim.stubworld import AbortRun, Livelock, RecControl, StubError, StubSolver, World

PROPERTY = "C06"
RUN_TIMEOUT_S = 240

OFFSETS = ["0", "+eps/2", "-eps/2", "+2eps", "-2eps", "+ulp", "-ulp", "+0.9eps", "-0.9eps", "+1.1eps", "-1.1eps"]


def gen(src, tier):
    driver = src.weighted("driver", [("save_at", 6), ("terminal", 1), ("every_step", 2)])
    T = src.uniform("T", 0.5, 3.0)
    nb = src.randint("plateaus", 1, 5)
    profile = sorted([src.uniform("tb", 0.0, T), 10 ** src.uniform("h", -2.2, 0.0)] for _ in range(nb))
    eps = src.loguniform("eps", 1e-10, 1e-4)
    clip = src.flip("clip", 0.5)
    placements = []
    if driver == "save_at":
        for _ in range(src.randint("n_cp", 0, 6)):
            kind = src.weighted("cp_kind", [("abs", 3), ("end", 4), ("pair", 1), ("multi", 1), ("early", 0.5), ("late", 0.5)])
            if kind == "abs":
                placements.append({"kind": "abs", "frac": src.uniform("frac", 0.02, 0.98)})
            elif kind == "end":
                placements.append({"kind": "end", "k": src.randint("k", 0, 40), "offset": src.choice("off", OFFSETS)})
            elif kind == "pair":
                placements.append({"kind": "pair", "frac": src.uniform("frac", 0.02, 0.98),
                                   "gap": src.choice("gap", [0.25, 0.5, 0.9, 1.1, 2.0])})
            elif kind == "multi":
                placements.append({"kind": "multi", "k": src.randint("k", 0, 40), "n": src.randint("n", 2, 4)})
            elif kind == "early":
                placements.append({"kind": "early", "delta": src.loguniform("delta", 1e-9, 1e-3)})
            else:
                placements.append({"kind": "late", "delta": src.loguniform("delta", 1e-9, 1e-3)})
    final = None
    if src.flip("align_final", 0.5):
        final = {"k": src.randint("k", 1, 40),
                 "rel": src.choice("rel", [0.0, 1e-12, 1e-10, 1e-8, 1e-6, 1e-4, 1e-2, 1e-1, -1e-12, -1e-8, -1e-4]),
                 "eps_mult": src.choice("epsm", [0, 0, 0.5, -0.5, 2, -2])}
    kind = src.choice("ctrl", ["I", "PI"])
    ctrl = {
        "kind": kind,
        "safety": src.uniform("safety", 0.5, 0.99),
        "factor_min": src.uniform("fmin", 0.05, 0.9),
        "factor_max": src.choice("fmax_kind", [src.uniform("fmax", 1.5, 20.0), src.uniform("fmax", 1.5, 20.0),
                                               1.0 + src.uniform("fmax1", 0.01, 1.0)]),
        "exponent_integral": src.uniform("ki", 0.05, 1.0),
        "exponent_proportional": src.uniform("kp", 0.0, 1.5),
    }
    base = src.choice("p_reject", [0.0, 0.0, 0.05, 0.2, 0.5])
    bias = src.choice("bias", ["flat", "after_checkpoint", "after_clip", "first"])
    p_reject = {"plain": base, "first": base, "after_checkpoint": base, "after_clip": base}
    if bias != "flat":
        p_reject[bias] = max(base, src.choice("bias_p", [0.5, 0.9, 1.0]))
    sc = {
        "driver": driver,
        "T": T,
        "profile": profile,
        "eps": eps,
        "clip": clip,
        "placements": placements,
        "final": final,
        "dt0": src.loguniform("dt0", 1e-3, 10.0),
        "noise": src.choice("noise", [0.0, 0.1, 1.0]),
        "noise_seed": src.subseed("noise_seed"),
        "ctrl": ctrl,
        "p_reject": p_reject,
        "burst": src.randint("burst", 1, 4),
        # F11: attempts whose error estimate is exactly zero (error_power = inf), in runs of up to three -- the limit of
        # the profile space (infinite admissible step); met in practice after an exact Taylor initialisation with a tiny dt0
        "p_zero_error": src.choice("p_zero_error", [0.0, 0.0, 0.0, 0.03, 0.15]),
        "compiled": driver != "every_step" and src.flip("compiled", 1 / 3),
        "max_attempts": 3000,
    }
    return sc


def make_control(c):
    if c["kind"] == "I":
        return ivpsolve.control_integral(safety=c["safety"], factor_min=c["factor_min"], factor_max=c["factor_max"])
    return ivpsolve.control_proportional_integral(
        safety=c["safety"], factor_min=c["factor_min"], factor_max=c["factor_max"],
        exponent_integral=c["exponent_integral"], exponent_proportional=c["exponent_proportional"])


def run_world(sc, save_at, compiled, driver=None, quiet_faults=False):
    """One execution of the real loop against the scripted peers.  Returns the World."""
    sc2 = dict(sc)
    sc2["save_at"] = [float(x) for x in save_at]
    if driver is not None:
        sc2["driver"] = driver
    if quiet_faults:
        sc2["p_reject"] = {k: 0.0 for k in sc["p_reject"]}
    w = World(sc2)
    solver = StubSolver(w, compiled)
    error = StubError(w, compiled)
    control = RecControl(make_control(sc["ctrl"]), w, compiled, sc["ctrl"]["kind"])
    drv = sc2["driver"]
    sa = jnp.asarray(sc2["save_at"], dtype=jnp.float64)
    kw = dict(atol=1e-3, rtol=1e-3, dt0=sc["dt0"], eps=sc["eps"])
    try:
        if compiled:
            if drv == "save_at":
                solve = ivpsolve.solve_adaptive_save_at(solver=solver, error=error, control=control, clip_dt=sc["clip"])
                sol = jax.jit(lambda s: solve(None, save_at=s, **kw))(sa)
            else:
                solve = ivpsolve.solve_adaptive_terminal_values(solver=solver, error=error, control=control,
                                                                clip_dt=sc["clip"])
                sol = jax.jit(lambda s: solve(None, t0=s[0], t1=s[-1], **kw))(sa)
            jax.block_until_ready(sol)
            jax.effects_barrier()
        else:
            with flowseam.stepped(budget=50_000):
                if drv == "save_at":
                    solve = ivpsolve.solve_adaptive_save_at(solver=solver, error=error, control=control,
                                                            clip_dt=sc["clip"], while_loop=flowseam.py_while)
                    sol = solve(None, save_at=sa, **kw)
                elif drv == "terminal":
                    solve = ivpsolve.solve_adaptive_terminal_values(solver=solver, error=error, control=control,
                                                                    clip_dt=sc["clip"], while_loop=flowseam.py_while)
                    sol = solve(None, t0=sa[0], t1=sa[-1], **kw)
                else:
                    solve = test_util.solve_adaptive_save_every_step(solver, error, control, clip_dt=sc["clip"])
                    sol = solve(None, sa[0], sa[-1], **kw)
    except Livelock as e:
        w.v("I8", "no progress: " + str(e))
        w.aborted = "livelock"
        return w
    except AbortRun:
        w.aborted = "violations"
        return w
    except flowseam.StepBudgetExceeded:
        w.aborted = "budget"
        return w
    except Exception as e:  # noqa: BLE001
        if "AbortRun" in str(e) or (compiled and w.viol):
            w.aborted = "violations"
            return w
        if "StepBudgetExceeded" in str(e) or w.attempts > w.max_attempts:
            w.aborted = "budget"
            return w
        raise
    w.aborted = None
    ts = onp.atleast_1d(onp.asarray(sol.t))
    toks = onp.atleast_1d(onp.asarray(sol.tok))
    ns = onp.atleast_1d(onp.asarray(sol.num_steps))
    try:
        w.finish(ts, toks, ns, drv)
    except AbortRun:
        pass
    return w


def ulp(x):
    return math.ulp(x)


def resolve(sc):
    """Two-pass placement (F3/F4): a probe run records the step ends; checkpoints and the final
    time are then placed relative to them."""
    T = sc["T"]
    ends = []
    need = sc["final"] is not None or any(p["kind"] in ("end", "multi") for p in sc["placements"])
    if need:
        sc_probe = dict(sc)
        sc_probe["clip"] = False
        w = run_world(sc_probe, [0.0, T], compiled=False, driver="save_at")
        t = 0.0
        for e in w.rec.of_kind("err"):
            pass
        steps = w.rec.of_kind("step")
        errs = w.rec.of_kind("err")
        for s, e in zip(steps, errs):
            if e["acc"]:
                ends.append(s["t"] + s["dt"])
    eps = sc["eps"]
    if sc["final"] is not None and ends:
        k = min(sc["final"]["k"], len(ends) - 1)
        prev = ends[k - 1] if k > 0 else 0.0
        dt = ends[k] - prev
        Tn = ends[k] + sc["final"]["rel"] * dt + sc["final"]["eps_mult"] * eps
        if Tn > 10 * eps:
            T = Tn
    cps = []

    def off(o):
        return {"0": 0.0, "+eps/2": eps / 2, "-eps/2": -eps / 2, "+2eps": 2 * eps, "-2eps": -2 * eps,
                "+0.9eps": 0.9 * eps, "-0.9eps": -0.9 * eps, "+1.1eps": 1.1 * eps, "-1.1eps": -1.1 * eps}.get(o)

    for p in sc["placements"]:
        if p["kind"] == "abs":
            cps.append(p["frac"] * T)
        elif p["kind"] == "pair":
            x = p["frac"] * T
            cps += [x, x + p["gap"] * eps]
        elif p["kind"] == "early":
            cps.append(p["delta"])
        elif p["kind"] == "late":
            cps.append(T - p["delta"])
        elif ends:
            inside = [e for e in ends if e < T]
            if not inside:
                continue
            k = min(p["k"], len(inside) - 1)
            if p["kind"] == "end":
                e = inside[k]
                if p["offset"] == "+ulp":
                    cps.append(e + ulp(e))
                elif p["offset"] == "-ulp":
                    cps.append(e - ulp(e))
                else:
                    cps.append(e + off(p["offset"]))
            else:
                a = inside[k - 1] if k > 0 else 0.0
                b = inside[k]
                cps += [a + (b - a) * (i + 1) / (p["n"] + 1) for i in range(p["n"])]
    cps = sorted({c for c in cps if 0.0 < c < T})
    return [0.0] + cps + [T], ends


def abstract_of(w):
    return w.rec.abstract_string()


def execute(sc):
    save_at, ends = resolve(sc)
    w = run_world(sc, save_at, compiled=False)
    viol = list(w.viol)
    faults = dict(w.faults)
    probes = dict(w.probes)
    inconclusive = []
    if w.aborted == "budget":
        inconclusive.append("budget")
    ab = abstract_of(w)
    mode = "stepped"
    if sc.get("compiled") and w.aborted is None:
        mode = "stepped+compiled"
        wc = run_world(sc, save_at, compiled=True)
        for v in wc.viol:
            v = dict(v)
            v["msg"] = "[compiled] " + v["msg"]
            viol.append(v)
        if wc.aborted is None:
            probes["compiled_runs"] = 1
            if abstract_of(wc) == ab:
                probes["compiled_same_abstract_history"] = 1
            else:
                inconclusive.append("compiled_history_differs")
            if wc.rec.digest() == w.rec.digest():
                probes["compiled_bitwise_same_event_log"] = 1
    n_rej = ab.count("R")
    n_acc = ab.count("A") + ab.count("C")
    if len(save_at) > 2:
        faults["F3_checkpoints_placed"] = len(save_at) - 2
    if sc["final"] is not None:
        faults["F4_final_time_aligned"] = 1
    faults["F5_dt0_extreme"] = int(sc["dt0"] > sc["T"] or sc["dt0"] < 1e-2)
    if mode != "stepped":
        faults["F6_compiled_rerun"] = 1
    out = {
        "violations": [{"inv": v["inv"], "msg": v["msg"], "data": v.get("data"), "event": v.get("event")} for v in viol],
        "status": "inconclusive" if inconclusive and not viol else "ok",
        "inconclusive": inconclusive,
        "stats": {"attempts": w.attempts, "accepted": n_acc, "rejected": n_rej, "sim_time": float(save_at[-1]),
                  "interpolations": len(w.reported), "events": len(w.rec.events)},
        "faults": faults,
        "probes": probes,
        "abstract": ab if len(ab) <= 400 else ab[:400] + "...",
        "abstract_key": __import__("sim.history", fromlist=["digest_of"]).digest_of(ab),
        "nontrivial": (n_rej > 0 or len(w.reported) > 1),
        "cell": f"{sc['driver']}|{sc['ctrl']['kind']}|clip={int(sc['clip'])}|{mode}",
        "mode": mode,
        "digest": w.rec.digest(),
        "sample": {"driver": sc["driver"], "clip": sc["clip"], "eps": sc["eps"], "save_at": save_at,
                   "ctrl": sc["ctrl"], "history": ab[:120]},
    }
    return out


def shrink_candidates(sc):
    # drop checkpoints
    for i in range(len(sc["placements"])):
        c = copy.deepcopy(sc)
        del c["placements"][i]
        yield c
    if sc.get("compiled"):
        c = copy.deepcopy(sc)
        c["compiled"] = False
        yield c
    if any(v > 0 for v in sc["p_reject"].values()):
        c = copy.deepcopy(sc)
        c["p_reject"] = {k: 0.0 for k in sc["p_reject"]}
        yield c
    if sc["noise"] != 0.0:
        c = copy.deepcopy(sc)
        c["noise"] = 0.0
        yield c
    if len(sc["profile"]) > 1:
        for i in range(len(sc["profile"])):
            c = copy.deepcopy(sc)
            del c["profile"][i]
            yield c
    if sc["final"] is not None:
        c = copy.deepcopy(sc)
        c["final"] = None
        yield c
    if sc["T"] > 0.6:
        c = copy.deepcopy(sc)
        c["T"] = max(0.5, sc["T"] / 2)
        yield c
    simple_ctrl = {"kind": sc["ctrl"]["kind"], "safety": 0.95, "factor_min": 0.2, "factor_max": 10.0,
                   "exponent_integral": 0.3, "exponent_proportional": 0.4}
    if sc["ctrl"] != simple_ctrl:
        c = copy.deepcopy(sc)
        c["ctrl"] = simple_ctrl
        yield c
    if sc["ctrl"]["kind"] == "PI":
        c = copy.deepcopy(sc)
        c["ctrl"]["kind"] = "I"
        yield c
    if sc["dt0"] != 0.1:
        c = copy.deepcopy(sc)
        c["dt0"] = 0.1
        yield c
    if sc["burst"] != 1:
        c = copy.deepcopy(sc)
        c["burst"] = 1
        yield c
    for p in sc["profile"]:
        r = [round(p[0], 2), float(f"{p[1]:.1g}")]
        if r != p:
            c = copy.deepcopy(sc)
            c["profile"] = [[round(q[0], 2), float(f"{q[1]:.1g}")] for q in sc["profile"]]
            yield c
            break
