"""C07 -- the acceptance quantity equals the documented local error estimate (in-run monitor).

Natural adaptive runs with a recording proxy around the real error estimator (both estimators,
both norms, cached / re-linearised, per-unit-step, derivative index, spurious rejections and
proposal jitter injected).  At EVERY attempt the reference recomputes the documented quantity
from the previous mean only and compares it with the number the loop compared with one.
"""

import copy
import math

import mpmath as mp
import numpy as onp

from sim import compare, configs, embed, scen
from sim.history import Recorder, digest_of
from sim.refmodel import Model, mpf

PROPERTY = "C07"
RUN_TIMEOUT_S = 900


def gen(src, tier):
    cfg = configs.gen_config(src, qmax=5, priors=("iwp",), inits=("exact", "exact", "inexact"), allow_constraint_init=False)
    if cfg["strategy"] == "fixedinterval":
        cfg["strategy"] = "filter"
    est = src.choice("estimator", ["residual", "residual", "state"])
    spec = {"kind": est, "norm": src.choice("norm", ["scale_then_rms", "rms_then_scale"]), "relin": src.flip("relin", 0.5),
            "per_unit_step": src.flip("pus", 0.4), "derivative_idx": 0}
    if est == "state" and src.flip("didx", 0.4):
        spec["derivative_idx"] = 1
    atol = 10 ** src.uniform("atol", -9, -2)
    rtol = atol if src.flip("same_tol", 0.4) else 10 ** src.uniform("rtol", -9, -2)
    sc = {"cfg": cfg, "error": spec, "atol": atol, "rtol": rtol, "dt0": 10 ** src.uniform("dt0", -3, -0.5),
          "T": src.uniform("T", 0.2, 0.8), "ncp": src.randint("ncp", 0, 2), "eps": 1e-8,
          "control": {"kind": src.choice("ck", ["I", "PI"])},
          "fault": {"seed": src.subseed("fseed"), "p_reject": src.choice("p_rej", [0.0, 0.1, 0.3]),
                    "p_jitter": src.choice("p_jit", [0.0, 0.3]), "max_burst": 2},
          "twin": cfg["init"] == "exact" and cfg["damp"] == 0.0 and src.flip("twin", 0.3),
          "twin_k": src.randint("twin_k", -12, 12)}
    return sc


def documented_error_power(b, model0, spec, call, q, d, order):
    """norm^(-1/(q+1)) recomputed from the previous mean only."""
    prev, prop, h = call["previous"], call["proposed"], call["dt"]
    m_prev, _ = embed.normal_mp(prev.u)
    n = q + 1
    zero = mp.zeros(n * d)
    st = model0.step(m_prev, zero, mpf(float(prev.t)), mpf(h))
    s2 = st["term2"]  # whitened squared residual, per dimension
    S = st["S"]
    iso = b.cfg["ssm"] == "isotropic"
    if spec["kind"] == "residual":
        if iso:
            err = [mp.sqrt(s2[0] * S[0, 0])]
        else:
            err = [mp.sqrt(s2[i] * S[i, i]) for i in range(d)]
        nn = order
        ref_idx = 0
    else:
        k = spec["derivative_idx"]
        Ppost = st["P"]
        if iso:
            err = [mp.sqrt(s2[0] * abs(Ppost[k * d, k * d]))]
        else:
            err = [mp.sqrt(s2[i] * abs(Ppost[k * d + i, k * d + i])) for i in range(d)]
        nn = k
        ref_idx = k
    if spec["per_unit_step"]:
        nn += 1
    mp_prev = embed.normal_np(prev.u)[0]
    mp_prop = embed.normal_np(prop.u)[0]
    u0 = onp.abs(mp_prev[ref_idx * d:(ref_idx + 1) * d])
    u1 = onp.abs(mp_prop[ref_idx * d:(ref_idx + 1) * d])
    reference = [mpf(float(max(a, c))) for a, c in zip(u0, u1)]
    fac = mpf(h) ** nn / mp.factorial(nn)
    err_abs = [e * fac for e in err]
    atol, rtol = mpf(call["atol"]), mpf(call["rtol"])

    def rms(v):
        return mp.sqrt(sum(x * x for x in v)) / mp.sqrt(len(v))

    if spec["norm"] == "scale_then_rms":
        if len(err_abs) == 1 and d > 1:
            rel = [err_abs[0] / (atol + rtol * r) for r in reference]
        else:
            rel = [e / (atol + rtol * r) for e, r in zip(err_abs, reference)]
        norm = rms(rel)
    else:
        norm = rms(err_abs) / (atol + rtol * rms(reference))
    if norm == 0:
        return float("inf"), st["kappa"], st
    return float(norm ** (mpf(-1) / (q + 1))), st["kappa"], st


def execute(sc):
    cfg = sc["cfg"]
    q, d, order = cfg["q"], cfg["d"], cfg["order"]
    b = configs.build(cfg)
    T = cfg["t0"] + sc["T"]
    cps = [cfg["t0"] + f * sc["T"] for f in [0.37, 0.71][: sc["ncp"]]]
    save_at = [cfg["t0"]] + cps + [T]
    marks = []
    r = scen.run_natural(b, save_at, atol=sc["atol"], rtol=sc["rtol"], dt0=sc["dt0"], eps=sc["eps"],
                         error_spec=sc["error"], control_spec=sc["control"], fault=dict(sc["fault"]), rec=Recorder(),
                         keep_states=True, on_call=lambda: marks.append(len(b.vf_log)),
                         stop_after_calls=60)  # the first 40 estimator calls are decided; a run needing thousands of steps is cut
    model0 = Model(b.model.prior, b.poly, cfg["lin"], cfg["ssm"], "none", damp=cfg["damp"])
    viol, probes, stats = [], {}, {}
    calls = r.err.calls[:40]
    worst = 0.0
    skipped = 0
    base_evals = None
    prev_mark = None
    for i, call in enumerate(calls):
        if call["atol"] != sc["atol"] or call["rtol"] != sc["rtol"]:
            viol.append({"inv": "ERR-tolerances", "msg": f"attempt {i}: the estimator was called with atol={call['atol']!r}, rtol={call['rtol']!r} but the caller passed atol={sc['atol']!r}, rtol={sc['rtol']!r}"})
            break
        want, kap, st = documented_error_power(b, model0, sc["error"], call, q, d, order)
        got = call["ep"]
        if not math.isfinite(want) or not math.isfinite(got):
            # a residual that vanishes identically: both must be +inf (or the attempt is ill-conditioned)
            skipped += 1
            continue
        rel = abs(got - want) / abs(want)
        tol = compare.scale_tol(kap)
        if compare.ill_conditioned(kap):
            skipped += 1
        else:
            worst = max(worst, rel / tol)
            if rel > tol:
                viol.append({"inv": "ERR-formula", "msg": f"attempt {i}: acceptance quantity {got!r} differs from the documented estimate {want!r} (rel {rel:.2e}, tol {tol:.1e}; estimator={sc['error']}, dt={call['dt']:.3g})"})
                if len(viol) >= 3:
                    break
        # vector-field call log: evaluations between consecutive estimator calls
        if i > 0:
            n_eval = marks[i] - marks[i - 1]
            if n_eval < 1:
                viol.append({"inv": "ERR-vfcalls", "msg": f"attempt {i}: no vector-field evaluation between two attempts"})
            elif base_evals is None:
                base_evals = n_eval
            # the last evaluation before the estimator returned must be at proposed.t
            t_last, u_last = b.vf_log[marks[i] - 1]
            t_prop = float(call["proposed"].t)
            if abs(t_last - t_prop) > 1e-12 * max(1.0, abs(t_prop)):
                viol.append({"inv": "ERR-vfcalls", "msg": f"attempt {i}: last vector-field evaluation at t={t_last}, not at the proposed time {t_prop}"})
            if sc["error"]["relin"]:
                extr = embed.vec_np(st["mpred"])[: order * d]
                if onp.max(onp.abs(onp.asarray(u_last) - extr)) > 1e-9 * (1 + onp.max(onp.abs(extr))):
                    viol.append({"inv": "ERR-vfcalls", "msg": f"attempt {i}: re-linearisation configured but the last vector-field evaluation is not at the extrapolated mean"})
    stats["worst_units_of_tol"] = worst
    stats["skipped_ill_conditioned"] = skipped
    # evaluations per attempt: solver (1, or 2 with dynamic re-linearisation) + 1 iff the estimator re-linearises
    per = [marks[i] - marks[i - 1] for i in range(1, len(marks))]
    lin_cost = 1 if cfg["lin"] == "ts0" else 2  # TS1: value + Jacobian pass both evaluate concretely? measured below
    if per:
        expect_lin = (2 if (cfg["calib"] == "dynamic" and cfg["relin"]) else 1) + (1 if sc["error"]["relin"] else 0)
        got_set = sorted(set(per))
        stats["vf_evals_per_attempt"] = got_set
        unit = per[0] / expect_lin
        if unit != int(unit) or any(p != per[0] for p in per):
            # interpolations never evaluate the vector field, so the count must be constant
            viol.append({"inv": "ERR-vfcalls", "msg": f"vector-field evaluations per attempt {got_set} are not {expect_lin} linearisation(s) each"})
    # ---- invariance under rescaling of the base scale (same pair of states is not available: twin run)
    if sc["twin"] and not viol:
        c = 2.0 ** sc["twin_k"]
        b2 = configs.build(cfg, lam=[c * x for x in cfg["lam"]], with_ref=False)
        r2 = scen.run_natural(b2, save_at, atol=sc["atol"], rtol=sc["rtol"], dt0=sc["dt0"], eps=sc["eps"],
                              error_spec=sc["error"], control_spec=sc["control"], fault=dict(sc["fault"]), rec=Recorder(),
                              stop_after_calls=60)
        e1 = [x[3] for x in r.err.log]
        e2 = [x[3] for x in r2.err.log]
        def reldiff(a, b_):
            if a == b_ or (math.isnan(a) and math.isnan(b_)):
                # nan in both runs: the dynamically calibrated step with an exactly zero residual (KF-C01/C02/C03-dynamic-
                # zero-residual) -- the same in both twins, hence no statement about scale invariance
                return 0.0
            if not (math.isfinite(a) and math.isfinite(b_)) or a == 0 or b_ == 0:
                return float("inf")
            return abs(a / b_ - 1)

        if len(e1) != len(e2) or max(reldiff(a, b_) for a, b_ in zip(e1, e2)) > 1e-9:
            viol.append({"inv": "ERR-scale-invariance", "msg": f"acceptance quantities change when the prior's base scale is multiplied by 2^{sc['twin_k']}"})
        probes["twin_rescaled"] = 1
    ab = r.rec.abstract_string()
    return {
        "violations": viol[:8],
        "stats": {"attempts": r.attempts, "accepted": len(r.accepted), "rejected": r.attempts - len(r.accepted),
                  "sim_time": float(sc["T"]), "attempts_checked": len(calls), "skipped_ill_conditioned": skipped},
        "probes": probes,
        "faults": {"F1_spurious_rejections": r.err.fired, "F2_proposal_jitter": r.ctrl.fired, "F3_checkpoints": sc["ncp"]},
        "worst": stats,
        "abstract": ab[:300],
        "abstract_key": digest_of([ab, sc["error"], round(math.log10(sc["atol"]), 3)]),
        "nontrivial": r.attempts >= 3,
        "cell": f"{cfg['ssm']}|{cfg['calib']}|{cfg['strategy']}|{cfg['lin']}|o{order}|{sc['error']['kind']}|{sc['error']['norm']}|relin{int(sc['error']['relin'])}|pus{int(sc['error']['per_unit_step'])}|di{sc['error']['derivative_idx']}",
        "mode": "stepped",
        "digest": digest_of([ab, [x[3] for x in r.err.log[:40]]]),
        "sample": {"cfg": {k: cfg[k] for k in ("ssm", "calib", "lin", "q", "d", "order", "strategy", "init", "damp")},
                   "error": sc["error"], "atol": sc["atol"], "rtol": sc["rtol"], "history": ab[:100]},
    }


def shrink_candidates(sc):
    if sc["fault"]["p_reject"] or sc["fault"]["p_jitter"]:
        c = copy.deepcopy(sc)
        c["fault"]["p_reject"] = 0.0
        c["fault"]["p_jitter"] = 0.0
        yield c
    if sc["ncp"]:
        c = copy.deepcopy(sc)
        c["ncp"] = 0
        yield c
    if sc["T"] > 0.25:
        c = copy.deepcopy(sc)
        c["T"] = sc["T"] / 2
        yield c
    if sc["twin"]:
        c = copy.deepcopy(sc)
        c["twin"] = False
        yield c
    cfg = sc["cfg"]
    for k, v in {"calib": "none", "init": "exact", "damp": 0.0, "lin": "ts0", "ssm": "dense", "strategy": "filter"}.items():
        if cfg[k] != v:
            c = copy.deepcopy(sc)
            c["cfg"][k] = v
            yield c
    for k, v in {"norm": "scale_then_rms", "relin": False, "per_unit_step": False, "derivative_idx": 0}.items():
        if sc["error"][k] != v:
            c = copy.deepcopy(sc)
            c["error"][k] = v
            yield c
    if cfg["q"] > max(cfg["order"], 1):
        c = copy.deepcopy(sc)
        c["cfg"]["q"] = cfg["q"] - 1
        yield c
