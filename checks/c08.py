"""C08 -- Gaussian conditional algebra is exact in every factorisation (in-run monitor, partial).

Simulated runs (forced histories with rejections and checkpoints, all strategies, then sampling,
log-marginal-likelihood and off-grid marginals on the result) execute with every conditional /
normal operation of the three factorisations wrapped: each executed marginalise, revert, merge,
apply_flat, preconditioner_apply, rescale_cholesky, logpdf, residual_whitened_rms and dense
conversion is recomputed with the dense formulas on the densely embedded operands.
"""

import copy
import warnings

import jax
import jax.numpy as jnp
import jax.tree_util as tu
import numpy as onp
from probdiffeq import ivpsolve, probdiffeq

from sim import configs, embed, flowseam, monitors, scen
from sim.history import Recorder, digest_of

PROPERTY = "C08"
RUN_TIMEOUT_S = 900


def gen(src, tier):
    strategy = src.choice("strategy", ["filter", "fixedpoint", "fixedinterval"])
    # swarm knob: one run in eight uses the largest shapes of the property's quantifier the solvers can produce
    # (n = 9 coefficients, d = 3), where products of 27 pivots leave the double range although every factor is representable
    big = src.flip("big", 0.125)
    cfg = configs.gen_config(src, strategy=strategy, qmax=8 if big else 6, priors=("iwp",) if big else ("iwp", "iwp", "iwp", "ioup"),
                             inits=("exact", "exact", "inexact", "diffuse", "partial"),
                             **({"q": 8, "d": 3} if big else {}))
    script = scen.gen_history(src, nsteps=(2, 5), p_reject=0.3, rel_lo=src.choice("rel_lo", [0.3, 0.05]))
    sc = {"cfg": cfg, "script": script, "eps": 1e-8, "final": scen.gen_final(src),
          "placements": scen.gen_placements(src, len(script) - 1, n=(0, 3)),
          "routine": "fixed_grid" if (strategy == "fixedinterval" and src.flip("grid", 0.5)) else "forced",
          "extras": {"sample": src.flip("sample", 0.6), "loss": src.flip("loss", 0.6), "offgrid": src.flip("offgrid", 0.4),
                     "precon": src.flip("precon", 0.5)},
          "key": src.randint("key", 0, 2**31 - 1),
          "big": bool(big), "logpdf_scale": src.choice("logpdf_scale", [1e-12, 1e-6, 1.0, 1e6, 1e12])}
    return sc


def drive(sc, b):
    """The simulated workload (everything runs under the monitor)."""
    cfg = sc["cfg"]
    accs = [s[-1] for s in sc["script"][:-1]]
    if sc["routine"] == "fixed_grid":
        grid = onp.concatenate([[b.t0], b.t0 + onp.cumsum(accs)])
        with flowseam.stepped(budget=20_000), warnings.catch_warnings():
            warnings.simplefilter("ignore")
            sol = ivpsolve.solve_fixed_grid(solver=b.solver)(b.prior, grid=jnp.asarray(grid), damp=cfg["damp"])
        ab, attempts = "F" * len(accs), len(accs)
    else:
        save_at, T, clip, _ = scen.resolve_layout(sc["script"], b.t0, sc["placements"], sc["final"], sc["eps"])
        driver = "every_step" if cfg["strategy"] == "fixedinterval" else "save_at"
        if driver == "every_step":
            save_at = [save_at[0], save_at[-1]]
        r = scen.run_forced(b, sc["script"], save_at, clip=clip, eps=sc["eps"], driver=driver, rec=Recorder())
        sol, ab, attempts = r.sol, r.rec.abstract_string(), r.attempts
    N = onp.asarray(sol.t).shape[0]
    if cfg["strategy"] != "filter":
        post = sol.solution_full.posterior
        if sc["extras"]["sample"]:
            with flowseam.stepped(budget=50_000):
                post.sample(jax.random.PRNGKey(sc["key"]), shape=())
        if sc["extras"]["loss"]:
            good = post.marginal.std[0]
            std = jnp.stack([0.1 * jnp.ones_like(good)] * N)
            with flowseam.stepped(budget=50_000):
                probdiffeq.loss_lml_timeseries()(sol.u.mean[0] + 0.01, posterior=post, std=std)
    if sc["extras"]["loss"]:
        term = tu.tree_map(lambda s: s[-1], sol.u)
        good = term.std[0]
        probdiffeq.loss_lml_terminal_values()(tu.tree_map(lambda s: s[-1], sol.u.mean[0]) + 0.01, marginals=term, std=0.1 * jnp.ones_like(good))
    if sc["extras"]["offgrid"] and cfg["strategy"] in ("filter", "fixedinterval") and N >= 3:
        ts = onp.asarray(sol.t, dtype=float)
        t = 0.5 * (ts[0] + ts[1])
        with flowseam.stepped(budget=20_000):
            b.solver.offgrid_marginals(jnp.asarray(t), solution=sol)
    proto = b.prior.init.prototype_output_scale_calibrated()
    if sc["extras"]["precon"]:
        for h in accs[:2]:
            tr = b.prior.transition(dt=jnp.asarray(h), output_scale=jnp.ones_like(proto))
            tr.preconditioner_apply()
    # log-density of the (well-conditioned, preconditioned) process noise under extreme common scalings: the drawn one,
    # and in the largest shapes (27 pivots, whose product leaves the double range) the whole range of the quantifier
    scales = [1e-12, 1e-6, 1.0, 1e6, 1e12] if sc.get("big") else ([sc.get("logpdf_scale", 1.0)] if sc["extras"]["precon"] else [])
    if scales:
        tr = b.prior.transition(dt=jnp.asarray(accs[0]), output_scale=jnp.ones_like(proto))
        for s in scales:
            noise = tr.noise.rescale_cholesky(jnp.asarray(s) * jnp.ones_like(proto))
            noise.logpdf_flat(noise.mean_flat)
    # dense conversion and standard deviations of the outputs
    one = tu.tree_map(lambda s: s[-1], sol.u)
    one.to_multivariate_normal()
    # full-state log-density of the terminal marginal at its own mean (log-determinant term): up to 27 pivots spanning many
    # orders of magnitude (the losses only ever evaluate d-dimensional observed marginals)
    one.logpdf_flat(one.mean_flat)
    # monitor-executed probes on operands the run produced: the library itself never reverts or merges a
    # conditional that carries BOTH a non-zero offset and non-unit scalings (backward transitions of the
    # fixed-interval smoother do), so the monitor does it here with run states as operands
    if cfg["strategy"] != "filter" and N >= 3 and sc["extras"].get("probe", True):
        cond = sol.solution_full.posterior.conditional
        nc = onp.asarray(cond.A).shape[0]
        for i in range(min(nc - 1, 2)):
            ci = tu.tree_map(lambda a: a[i], cond)
            cj = tu.tree_map(lambda a: a[i + 1], cond)
            rv = tu.tree_map(lambda s: s[i + 1], sol.u)
            from probdiffeq.backend import linalg

            ci.marginalise(rv)
            # the exact triangular solver; a (numerically) singular marginal of y yields non-finite gains, in which
            # case the monitor decides the marginal of y only (its gain checks are gated by conditioning)
            ci.marginalise(rv)
            ci.revert(rv, solve_triu=linalg.solve_triu)
            ci.merge(cj)
            ci.preconditioner_apply()
            ci.apply_flat(rv.mean_flat)
    return ab, attempts


def execute(sc):
    cfg = sc["cfg"]
    b = configs.build(cfg, with_ref=False)
    mon = monitors.AlgebraMonitor()
    with monitors.algebra(mon):
        ab, attempts = drive(sc, b)
    ops = sum(v for k, v in mon.counts.items() if "." in k)
    byop = {}
    for k, v in mon.counts.items():
        if "." in k:
            byop[k.split(".", 1)[1]] = byop.get(k.split(".", 1)[1], 0) + v
    skipped_gain = mon.counts.get("revert_gain_check_skipped_ill_conditioned", 0)
    viol = list(mon.viol)
    if mon.counts.get("monitor_errors"):
        # a monitor that cannot evaluate an operation is a harness problem, not a violation
        raise RuntimeError(f"monitor failed on {mon.counts['monitor_errors']} operation(s): {getattr(mon, 'last_error', '')}")
    return {
        "violations": viol[:8],
        "stats": {"attempts": attempts, "operations_checked": ops, "sim_time": float(sum(s[-1] for s in sc["script"][:-1]))},
        "probes": {"singular_covariance_reverts": mon.singular_reverts, "apply_flat_with_nonunit_scalings": mon.nonunit_scalings,
                   "revert_gain_check_skipped_ill_conditioned": skipped_gain,
                   **{"op_" + k: v for k, v in byop.items()}},
        "faults": {"F10_rejected_attempts": ab.count("R"), "F3_checkpoints": ab.count("a") + ab.count("b")},
        "worst": {k: v for k, v in sorted(mon.worst.items(), key=lambda kv: -kv[1])[:6]},
        "abstract": ab,
        "abstract_key": digest_of([ab, sc["script"], cfg["ssm"], cfg["strategy"], cfg["q"]]),
        "nontrivial": ops >= 10,
        "cell": configs.cell_of(cfg) + "|" + sc["routine"],
        "mode": "stepped",
        "digest": digest_of([ab, sorted(mon.counts.items())]),
        "sample": {"cfg": {k: cfg[k] for k in ("ssm", "calib", "lin", "q", "d", "strategy", "init", "prior")}, "history": ab,
                   "operations": byop},
    }


def shrink_candidates(sc):
    n = len(sc["script"]) - 1
    if n > 2:
        for i in range(n):
            c = copy.deepcopy(sc)
            del c["script"][i]
            yield c
    for i in range(len(sc["placements"])):
        c = copy.deepcopy(sc)
        del c["placements"][i]
        yield c
    for k in sc["extras"]:
        if sc["extras"][k]:
            c = copy.deepcopy(sc)
            c["extras"][k] = False
            yield c
    cfg = sc["cfg"]
    for k, v in {"calib": "none", "prior": "iwp", "init": "exact", "damp": 0.0, "constraint_init": False, "lin": "ts0"}.items():
        if cfg[k] != v:
            c = copy.deepcopy(sc)
            c["cfg"][k] = v
            if k == "init":
                c["cfg"]["diffuse_derivatives"] = 0
                c["cfg"]["constraint_init"] = False
            yield c
    if cfg["q"] > max(cfg["order"], 1):
        c = copy.deepcopy(sc)
        c["cfg"]["q"] = cfg["q"] - 1
        yield c
