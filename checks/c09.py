"""C09 -- prior transitions are the exact discretisation of their SDE and compose (in-run monitor, partial).

Every prior.transition(dt, output_scale) executed by simulated runs (forced histories with
rejections, checkpoints, dynamic calibration so that scales vary) is compared with the exact
discretisation (closed form for the integrated Wiener process, 50-digit Van-Loan matrix
exponential for Ornstein-Uhlenbeck / Matern priors); at every checkpoint split the two
sub-transitions must compose (library merge) to the transition of the whole step; a twin prior with
rescaled base scale must give a process noise scaled by c^2.
"""

import copy
import warnings

import jax.numpy as jnp
import mpmath as mp
import numpy as onp
from probdiffeq import ivpsolve

from sim import configs, embed, flowseam, monitors, scen
from sim.history import Recorder, digest_of

PROPERTY = "C09"
RUN_TIMEOUT_S = 900


def gen(src, tier):
    strategy = src.choice("strategy", ["filter", "fixedpoint", "fixedinterval"])
    cfg = configs.gen_config(src, strategy=strategy, qmax=8, priors=("iwp", "ioup", "matern"), inits=("exact", "exact", "diffuse"),
                             allow_constraint_init=False, calib=src.choice("calib", ["none", "dynamic", "dynamic", "mle"]))
    script = scen.gen_history(src, nsteps=(2, 5), p_reject=0.3, hb_exp=(-2.5, -0.3), rel_lo=src.choice("rel_lo", [0.3, 0.02]))
    return {"cfg": cfg, "script": script, "eps": 1e-8, "final": scen.gen_final(src),
            "placements": scen.gen_placements(src, len(script) - 1, n=(1, 3)), "c": 2.0 ** src.randint("ck", -8, 8),
            "routine": "fixed_grid" if (strategy == "fixedinterval" and src.flip("grid", 0.5)) else "forced"}


def execute(sc):
    cfg = sc["cfg"]
    b = configs.build(cfg)
    d, q = cfg["d"], cfg["q"]
    mon = monitors.TransitionMonitor(b.model.prior, cfg["ssm"], d)
    accs = [s[-1] for s in sc["script"][:-1]]
    splits = []
    with monitors.transitions(mon, b.prior):
        if sc["routine"] == "fixed_grid":
            grid = onp.concatenate([[b.t0], b.t0 + onp.cumsum(accs)])
            with flowseam.stepped(budget=20_000), warnings.catch_warnings():
                warnings.simplefilter("ignore")
                ivpsolve.solve_fixed_grid(solver=b.solver)(b.prior, grid=jnp.asarray(grid), damp=cfg["damp"])
            ab, attempts = "F" * len(accs), len(accs)
        else:
            save_at, T, clip, _ = scen.resolve_layout(sc["script"], b.t0, sc["placements"], sc["final"], sc["eps"])
            driver = "every_step" if cfg["strategy"] == "fixedinterval" else "save_at"
            if driver == "every_step":
                save_at = [save_at[0], save_at[-1]]
            r = scen.run_forced(b, sc["script"], save_at, clip=clip, eps=sc["eps"], driver=driver, rec=Recorder())
            ab, attempts = r.rec.abstract_string(), r.attempts
            for op in r.rs.ops:
                if op["op"] == "interp":
                    splits.append((float(op["from"].t), op["t"], float(op["to"].t), onp.asarray(op["to"].output_scale, dtype=float)))
    viol = list(mon.viol)
    probes = {"transitions_checked": mon.count, "exponential_prior": int(cfg["prior"] != "iwp"), "q>=6": int(q >= 6)}
    # ---- composition at checkpoint splits (monitor-executed probe on the states the run reached)
    n_split = 0
    for (ta, t, tb, scale) in splits[:6]:
        h1, h2 = t - ta, tb - t
        if not (h1 > 0 and h2 > 0):
            continue
        os_ = jnp.asarray(scale)
        t1 = b.prior.transition(dt=jnp.asarray(h1), output_scale=os_)
        t2 = b.prior.transition(dt=jnp.asarray(h2), output_scale=os_)
        whole = b.prior.transition(dt=jnp.asarray(h1 + h2), output_scale=os_)
        comp = t2.merge(t1)
        Ac, bc, Qc = embed.cond_np(comp)
        Aw, bw, Qw = embed.cond_np(whole)
        n = q + 1
        sc_ = onp.repeat(onp.array([(h1 + h2) ** i / mp.factorial(i) for i in range(n)], dtype=float), d)
        eA = float(onp.max(onp.abs(Ac - Aw) * onp.outer(sc_, 1 / sc_)) / (onp.max(onp.abs(Aw) * onp.outer(sc_, 1 / sc_)) + 1e-300))
        eQ = monitors.rel_cov(Qc * onp.outer(sc_, sc_), Qw * onp.outer(sc_, sc_), floor=1e-10)
        n_split += 1
        ratio = max(h1, h2) / min(h1, h2)
        tol = 1e-9 * max(1.0, (ratio / 1e2) ** 2)  # near-miss splits amplify rounding like (h/delta)^2 (DESIGN.md §2.6)
        if max(eA, eQ) > tol:
            viol.append({"inv": "SDE-composition", "msg": f"transitions over {h1:.3g} then {h2:.3g} do not compose to the transition over {h1 + h2:.3g}: drift {eA:.2e}, noise {eQ:.2e}"})
            break
    probes["checkpoint_splits_composed"] = n_split
    # ---- every Pade/Legendre order offered, on the scaled drift / dispersion matrices this run discretised
    #      (monitor-executed probe: the float64 priors themselves only ever use order 9)
    if cfg["prior"] != "iwp" and mon.calls and not viol:
        from probdiffeq.backend import linalg as plinalg
        from probdiffeq.util import gram_util

        pr = b.prior
        for dt, s_ in mon.calls[:2]:
            p, p_inv = pr.precon_fun(jnp.asarray(dt))
            p = onp.repeat(onp.asarray(p, dtype=float), d)
            p_inv = onp.repeat(onp.asarray(p_inv, dtype=float), d)
            A_p = dt * p_inv[:, None] * onp.asarray(pr.A, dtype=float) * p[None, :]
            B_p = onp.sqrt(abs(dt)) * onp.abs(p_inv[:, None]) * onp.asarray(pr.B, dtype=float)
            Ar, Qr = b.model.prior.transition(mp.mpf(float(dt)), [mp.mpf(1)] * d)
            Ar, Qr = embed.to_np(Ar), embed.to_np(Qr)
            Phi_ref = Ar * onp.outer(p_inv, p)
            G_ref = Qr * onp.outer(p_inv, p_inv)
            for name in ("pade_and_legendre_3", "pade_and_legendre_5", "pade_and_legendre_7", "pade_and_legendre_9", "pade_and_legendre_13"):
                if not hasattr(gram_util, name):
                    continue
                eA, L = gram_util.exp_gram_cholesky(pade_legendre=getattr(gram_util, name)(), solve=plinalg.solve_lu)(jnp.asarray(A_p), jnp.asarray(B_p))
                eA, L = onp.asarray(eA, dtype=float), onp.asarray(L, dtype=float)
                eA_err = float(onp.max(onp.abs(eA - Phi_ref)) / (onp.max(onp.abs(Phi_ref)) + 1e-300))
                eG_err = monitors.rel_cov(L @ L.T, G_ref, floor=1e-10)
                stats_key = name[-2:].strip("_")
                probes["pade_orders_probed"] = probes.get("pade_orders_probed", 0) + 1
                if max(eA_err, eG_err) > 1e-9:
                    viol.append({"inv": "SDE-pade-order", "msg": f"{name}: exp / Gramian of the scaled matrices of transition(dt={dt:.3g}) differ from the exact ones (|A_p|_1 = {onp.max(onp.sum(onp.abs(A_p), axis=0)):.2g}): exponential {eA_err:.2e}, Gramian {eG_err:.2e}"})
            if viol:
                break
    # ---- linearity in the base scale: twin prior with c * Lambda
    if not viol and mon.calls:
        c = sc["c"]
        b2 = configs.build(cfg, lam=[c * x for x in cfg["lam"]], with_ref=False)
        for dt, s in mon.calls[:3]:
            proto = b.prior.init.prototype_output_scale_calibrated()
            os_ = jnp.asarray(s).reshape(proto.shape)
            A1, _, Q1 = embed.cond_np(b.prior.transition(dt=jnp.asarray(dt), output_scale=os_))
            A2, _, Q2 = embed.cond_np(b2.prior.transition(dt=jnp.asarray(dt), output_scale=os_))
            eA = float(onp.max(onp.abs(A1 - A2)) / (onp.max(onp.abs(A1)) + 1e-300))
            eQ = monitors.rel_cov(Q2, c * c * Q1, floor=1e-14)
            if eA > 1e-12 or eQ > 1e-9:
                viol.append({"inv": "SDE-scale-linearity", "msg": f"process noise is not multiplied by c^2 (c={c}) when the base scale is multiplied by c: {eQ:.2e}; drift changed by {eA:.2e}"})
                break
        probes["twin_base_scale"] = 1
    return {
        "violations": viol[:8],
        "stats": {"attempts": attempts, "sim_time": float(sum(accs)), "transitions_checked": mon.count},
        "probes": probes,
        "faults": {"F10_rejected_attempts": ab.count("R"), "F3_checkpoints": ab.count("a") + ab.count("b")},
        "worst": {"transition": mon.worst},
        "abstract": ab,
        "abstract_key": digest_of([ab, sc["script"], cfg["prior"], cfg["q"], cfg["ssm"]]),
        "nontrivial": mon.count >= 3,
        "cell": f"{cfg['ssm']}|{cfg['prior']}|{cfg['calib']}|{cfg['strategy']}|q{q}|d{d}|{sc['routine']}",
        "mode": "stepped",
        "digest": digest_of([ab, mon.count, mon.worst]),
        "sample": {"cfg": {k: cfg[k] for k in ("ssm", "prior", "calib", "q", "d", "strategy", "lam")}, "history": ab,
                   "transitions": mon.calls[:5]},
    }


def shrink_candidates(sc):
    n = len(sc["script"]) - 1
    if n > 2:
        for i in range(n):
            c = copy.deepcopy(sc)
            del c["script"][i]
            yield c
    for i in range(len(sc["placements"])):
        c = copy.deepcopy(sc)
        del c["placements"][i]
        yield c
    cfg = sc["cfg"]
    for k, v in {"calib": "none", "prior": "iwp", "lin": "ts0", "strategy": "filter"}.items():
        if cfg[k] != v:
            c = copy.deepcopy(sc)
            c["cfg"][k] = v
            yield c
    if cfg["q"] > max(cfg["order"], 1):
        c = copy.deepcopy(sc)
        c["cfg"]["q"] = cfg["q"] - 1
        yield c
