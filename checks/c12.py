"""C12 -- marginal-likelihood losses equal the exact Gaussian log-density of the data.

Posteriors are produced by simulated smoother histories (fixed-interval on fixed grids and
every-step runs, fixed-point with checkpoints incl. coinciding ones); the loss value is compared
with the log-density of the data under the joint Gaussian built from the posterior's embedded
backward factorisation plus independent noise, evaluated in 50-digit arithmetic.
"""

import copy

import jax
import jax.numpy as jnp
import jax.tree_util as tu
import mpmath as mp
import numpy as onp
from probdiffeq import probdiffeq

from checks import c13
from sim import compare, configs, embed
from sim.history import digest_of

PROPERTY = "C12"
RUN_TIMEOUT_S = 900


def gen(src, tier):
    source = src.weighted("source", [("fixed_grid", 3), ("every_step", 2), ("fixedpoint", 4)])
    strategy = "fixedpoint" if source == "fixedpoint" else "fixedinterval"
    from sim import scen

    cfg = configs.gen_config(src, strategy=strategy, qmax=4, dmax=3, priors=("iwp",), inits=("exact", "inexact"),
                             allow_constraint_init=False)
    script = scen.gen_history(src, nsteps=(2, 6), p_reject=0.3 if source != "fixed_grid" else 0.0)
    sc = {"cfg": cfg, "source": source, "script": script, "eps": 1e-8,
          "tcoeff_index": src.weighted("k", [(0, 3), (1, 1), (cfg["q"], 1)]),
          "average": src.flip("avg", 0.5),
          "std_log10": [src.uniform("std", -6, 3) for _ in range(40)],
          "std_mode": src.choice("std_mode", ["per_entry", "per_time", "constant", "extreme_ratio"]),
          "data_seed": src.subseed("data"), "data_rel": src.choice("data_rel", [0.0, 0.5, 3.0])}
    if source in ("every_step", "fixedpoint"):
        sc["final"] = src.weighted("final", [({"kind": "overstep", "frac": src.uniform("of", 0.1, 0.9)}, 3), ({"kind": "exact_clip"}, 1),
                                             ({"kind": "within_eps", "mult": 0.5}, 1)])
    if source == "fixedpoint":
        pl = scen.gen_placements(src, len(script) - 1, n=(1, 4))
        if src.flip("coincide", 0.3):
            pl.append({"kind": "coincide", "k": src.randint("ck", 0, len(script) - 2)})
        sc["placements"] = pl
    return sc


def chain_joint_mp(post, rows):
    """Mean and covariance of the selected state rows at all output times, from the (float64) backward factorisation the
    library returned, multiplied out in 50-digit arithmetic.  (In float64 the products A_i ... A_j P_j lose the joint law
    of a high coefficient to cancellation: 1e-3 relative in the log-determinant was observed, seed 4 run 90.)"""
    cond = post.conditional
    nc = onp.asarray(cond.A).shape[0]
    mT, PT = embed.normal_mp(post.marginal)
    D = mT.rows
    means, covs, As = [None] * (nc + 1), [None] * (nc + 1), [None] * nc
    means[nc], covs[nc] = mT, PT
    for i in range(nc - 1, -1, -1):
        ci = tu.tree_map(lambda a: a[i], cond)
        A, bb, Q = embed.cond_mp(ci)
        As[i] = A
        means[i] = A * means[i + 1] + bb
        covs[i] = A * covs[i + 1] * A.T + Q
    N, r = nc + 1, len(rows)
    mu = [means[i][a] for i in range(N) for a in rows]
    J = mp.zeros(N * r)
    for i in range(N):
        M = mp.eye(D)
        for j in range(i, N):
            if j > i:
                M = M * As[j - 1]
            C = M * covs[j]
            for a in range(r):
                for c in range(r):
                    J[i * r + a, j * r + c] = C[rows[a], rows[c]]
                    J[j * r + c, i * r + a] = C[rows[a], rows[c]]
    return mu, J


def mp_logpdf(y, mu, Sigma):
    n = len(y)
    S = Sigma if isinstance(Sigma, mp.matrix) else mp.matrix(Sigma.tolist())
    r = mp.matrix([mp.mpf(float(a)) - mp.mpf(b_) for a, b_ in zip(y, mu)])
    L = mp.cholesky(S)
    w = mp.lu_solve(L, r)  # L is lower triangular; lu_solve is fine at 50 digits
    maha = sum(x * x for x in w)
    logdet = 2 * sum(mp.log(L[i, i]) for i in range(n))
    return -0.5 * (maha + logdet + n * mp.log(2 * mp.pi))


def execute(sc):
    import random

    cfg = sc["cfg"]
    q, d = cfg["q"], cfg["d"]
    D = (q + 1) * d
    k = min(sc["tcoeff_index"], q)
    b = configs.build(cfg, with_ref=False)
    post, sol, ab, attempts = c13.get_posterior(sc, b)
    if not all(onp.all(onp.isfinite(onp.asarray(x, dtype=float))) for x in tu.tree_leaves(post)):
        # a posterior that is already non-finite (known root cause: a dynamically calibrated step whose residual is exactly
        # zero, KF-C01/C02/C03-dynamic-zero-residual) says nothing about the losses; not decided here
        return {"violations": [], "status": "inconclusive", "inconclusive": ["posterior_nonfinite"], "stats": {"attempts": attempts, "sim_time": 0.0},
                "probes": {}, "faults": {}, "abstract": ab, "abstract_key": digest_of([ab, "nonfinite"]), "nontrivial": False,
                "cell": configs.cell_of(cfg), "mode": "stepped", "digest": digest_of([ab, "nonfinite"]), "sample": {}}
    hm = float(onp.mean([s[-1] for s in sc["script"][:-1]]))
    S = compare.nordsieck_scales(q, d, hm)
    means_s, J_s, As_s, bs_s = c13.chain_joint(post, S, return_parts=True)
    N = means_s.shape[0]
    sel = onp.concatenate([i * D + k * d + onp.arange(d) for i in range(N)])
    Ssel = onp.tile(S[k * d:(k + 1) * d], N)
    mu = (means_s.reshape(-1)[sel]) / Ssel
    Sig = J_s[onp.ix_(sel, sel)] / onp.outer(Ssel, Ssel)
    viol, probes, stats = [], {}, {}
    # ---- noise levels and data
    iso = cfg["ssm"] == "isotropic"
    logs = sc["std_log10"]
    std = onp.zeros((N, d))
    for i in range(N):
        for j in range(d):
            if sc["std_mode"] == "extreme_ratio" and not iso and d > 1:
                # per-dimension noise levels nine orders of magnitude apart, swapping sides from time to time
                e = -6.0 if (i + j) % 2 == 0 else 3.0
            elif sc["std_mode"] == "constant":
                e = logs[0]
            elif sc["std_mode"] == "per_time" or iso:
                e = logs[i % len(logs)]
            else:
                e = logs[(i * d + j) % len(logs)]
            std[i, j] = 10.0**e
    rng = random.Random(sc["data_seed"])
    sd_tot = onp.sqrt(onp.diag(Sig).reshape(N, d) + std**2)
    data = mu.reshape(N, d) + sc["data_rel"] * sd_tot * onp.array([[rng.uniform(-1, 1) for _ in range(d)] for _ in range(N)])
    std_arg = jnp.asarray(std[:, 0] if iso else std)
    # ---- time-series loss
    loss = probdiffeq.loss_lml_timeseries(average_pdfs=sc["average"], tcoeff_index=k)
    val = float(loss(jnp.asarray(data), posterior=post, std=std_arg))
    Sy = Sig + onp.diag((std**2).reshape(-1))
    mu_mp, Sig_mp = chain_joint_mp(post, [k * d + j for j in range(d)])
    for i_, s_ in enumerate(std.reshape(-1)):
        Sig_mp[i_, i_] += mp.mpf(float(s_)) ** 2
    ref = mp_logpdf(data.reshape(-1), mu_mp, Sig_mp)
    if sc["average"]:
        ref = ref / N
    ref = float(ref)
    err = abs(val - ref) / (1.0 + abs(ref))
    stats["timeseries_err"] = err
    # conditioning of the joint: noise floor vs prior variances
    cond = float(onp.max(onp.diag(Sy)) / max(onp.min(std**2), 1e-300))
    stats["cond"] = cond
    tol = 1e-7 + 1e-13 * min(cond, 1e8)
    # rounding of the backward means: a backward conditional for a high coefficient has gain entries of order
    # h^-k, so the float64 representation of the (O(1)) low coefficients costs eps * (|A||m| + |b|) in the
    # predicted mean of coefficient k; its effect on the log-density is (|z|+1) * delta / sd per time point
    sdv = onp.sqrt(onp.diag(Sy)).reshape(N, d)
    zv = onp.abs(data - mu.reshape(N, d)) / sdv
    amp = 0.0
    for i in range(N - 1):
        delta = compare.EPS * (onp.abs(As_s[i]) @ onp.abs(means_s[i + 1]) + onp.abs(bs_s[i]))[k * d:(k + 1) * d] / S[k * d:(k + 1) * d]
        amp += float(onp.sum((zv[i] + 1.0) * delta / sdv[i]))
    stats["mean_rounding_amplification"] = amp
    tol_abs = tol * (1.0 + abs(ref)) + 100 * amp / (N if sc["average"] else 1)  # largest observed error / amp with the 50-digit joint: 3.2
    tol = tol_abs / (1.0 + abs(ref))
    if not onp.isfinite(val):
        viol.append({"inv": "LML-finite", "msg": f"time-series loss is not finite ({val})"})
    elif err > tol:
        viol.append({"inv": "LML-timeseries", "msg": f"time-series loss {val!r} differs from the log-density of the data under the joint smoothing posterior plus noise {ref!r} (rel {err:.2e}, {N} output times, average={sc['average']}, tcoeff_index={k})"})
    # ---- terminal-value loss
    lt = probdiffeq.loss_lml_terminal_values(tcoeff_index=k)
    term = tu.tree_map(lambda s: s[-1], sol.u)
    mT, PT = embed.normal_np(term)
    selT = k * d + onp.arange(d)
    muT = mT[selT]
    SigT = (PT * onp.outer(S, S))[onp.ix_(selT, selT)] / onp.outer(S[selT], S[selT]) + onp.diag(std[-1] ** 2)
    valT = float(lt(jnp.asarray(data[-1]), marginals=term, std=jnp.asarray(std[-1, 0] if iso else std[-1])))
    refT = float(mp_logpdf(data[-1], muT, SigT))
    errT = abs(valT - refT) / (1.0 + abs(refT))
    stats["terminal_err"] = errT
    if not onp.isfinite(valT):
        viol.append({"inv": "LML-finite", "msg": f"terminal-value loss is not finite ({valT})"})
    elif errT > tol:
        viol.append({"inv": "LML-terminal", "msg": f"terminal-value loss {valT!r} differs from the log-density under the terminal marginal plus noise {refT!r} (rel {errT:.2e})"})
    # coinciding output times?
    ts = onp.asarray(sol.t, dtype=float)
    probes["coinciding_output_times"] = int(onp.any(onp.diff(ts) <= sc["eps"]))
    probes["noise_free_initial_state"] = int(cfg["init"] == "exact")
    probes["std_below_1e-4"] = int(onp.min(std) < 1e-4)
    return {
        "violations": viol[:8],
        "stats": {"attempts": attempts, "sim_time": float(sum(s[-1] for s in sc["script"][:-1])), "output_times": int(N)},
        "probes": probes,
        "faults": {"F10_rejected_attempts": ab.count("R"), "F3_checkpoints": ab.count("a") + ab.count("b")},
        "worst": stats,
        "abstract": ab,
        "abstract_key": digest_of([ab, sc["source"], sc["script"], sc["std_log10"][:4]]),
        "nontrivial": N >= 2,
        "cell": f"{cfg['ssm']}|{cfg['calib']}|{sc['source']}|k{k}|avg{int(sc['average'])}|{cfg['init']}|{sc['std_mode']}",
        "mode": "stepped",
        "digest": digest_of([ab, val, valT]),
        "sample": {"cfg": {kk: cfg[kk] for kk in ("ssm", "calib", "lin", "q", "d", "init")}, "source": sc["source"], "N": int(N),
                   "tcoeff_index": k, "average": sc["average"], "loss": val, "reference": ref, "history": ab},
    }


def shrink_candidates(sc):
    n = len(sc["script"]) - 1
    if n > 2:
        for i in range(n):
            c = copy.deepcopy(sc)
            del c["script"][i]
            yield c
    for i in range(len(sc.get("placements", []))):
        c = copy.deepcopy(sc)
        del c["placements"][i]
        yield c
    if sc["std_mode"] != "constant":
        c = copy.deepcopy(sc)
        c["std_mode"] = "constant"
        yield c
    if sc["data_rel"] != 0.0:
        c = copy.deepcopy(sc)
        c["data_rel"] = 0.0
        yield c
    if sc["tcoeff_index"] != 0:
        c = copy.deepcopy(sc)
        c["tcoeff_index"] = 0
        yield c
    cfg = sc["cfg"]
    for kk, v in {"calib": "none", "init": "exact", "damp": 0.0, "lin": "ts0", "ssm": "dense"}.items():
        if cfg[kk] != v:
            c = copy.deepcopy(sc)
            c["cfg"][kk] = v
            yield c
