"""C13 -- posterior samples are exact affine images of the normal draws.

The random source is the simulated component: backend.random.normal is scripted (all-zero draws,
one-hot draws) and every key is logged.  Posteriors come from simulated smoother runs
(fixed-interval on fixed grids and every-step runs, fixed-point with checkpoints) and from
MarkovSequence.from_grid.  The affine map is identified draw by draw.
"""

import copy

import jax
import jax.numpy as jnp
import jax.tree_util as tu
import numpy as onp
from probdiffeq import ivpsolve, probdiffeq

from sim import compare, configs, embed, flowseam, randseam, scen
from sim.history import Recorder, digest_of
from sim.refmodel import mpf

PROPERTY = "C13"
# amplitude of the one-hot draws: the sampler is affine in its draws, and mean + L e loses the small
# entries of L to cancellation against O(1) means unless the draw is large (power of two: exact rescale)
AMP = 2.0**26
RUN_TIMEOUT_S = 900


def gen(src, tier):
    source = src.weighted("source", [("fixed_grid", 3), ("every_step", 2), ("fixedpoint", 3), ("prior_grid", 2)])
    strategy = "fixedpoint" if source == "fixedpoint" else "fixedinterval"
    cfg = configs.gen_config(src, strategy=strategy, qmax=3, dmax=3, priors=("iwp",), inits=("exact", "inexact"),
                             allow_constraint_init=False)
    script = scen.gen_history(src, nsteps=(2, 4), p_reject=0.3 if source in ("every_step", "fixedpoint") else 0.0)
    sc = {"cfg": cfg, "source": source, "script": script, "eps": 1e-8,
          "shape": src.choice("shape", [[2], [2, 3], [3], [3, 1, 2]]), "key": src.randint("key", 0, 2**31 - 1)}
    if source in ("every_step", "fixedpoint"):
        sc["final"] = src.weighted("final", [({"kind": "overstep", "frac": src.uniform("of", 0.1, 0.9)}, 3), ({"kind": "exact_clip"}, 1)])
    if source == "fixedpoint":
        sc["placements"] = scen.gen_placements(src, len(script) - 1, n=(1, 2))
    return sc


def flat_time_major(sample_tree, N1):
    """sample: list over Taylor coefficients of arrays (N+1, d)  ->  (N+1, n*d) coefficient-major rows."""
    leaves = [onp.asarray(jax.flatten_util.ravel_pytree(tu.tree_map(lambda a: a[i], sample_tree))[0]) for i in range(N1)]
    return onp.stack(leaves)


def get_posterior(sc, b):
    src_ = sc["source"]
    accs = [s[-1] for s in sc["script"][:-1]]
    import warnings

    if src_ == "fixed_grid":
        grid = onp.concatenate([[b.t0], b.t0 + onp.cumsum(accs)])
        with flowseam.stepped(budget=20_000), warnings.catch_warnings():
            warnings.simplefilter("ignore")
            sol = ivpsolve.solve_fixed_grid(solver=b.solver)(b.prior, grid=jnp.asarray(grid), damp=b.cfg["damp"])
        return sol.solution_full.posterior, sol, "F" * len(accs), len(accs)
    driver = "every_step" if src_ == "every_step" else "save_at"
    save_at, T, clip, _ = scen.resolve_layout(sc["script"], b.t0, sc.get("placements", []), sc["final"], sc["eps"])
    if driver == "every_step":
        save_at = [save_at[0], save_at[-1]]
    r = scen.run_forced(b, sc["script"], save_at, clip=clip, eps=sc["eps"], driver=driver, rec=Recorder())
    return r.sol.solution_full.posterior, r.sol, r.rec.abstract_string(), r.attempts


def chain_joint(post, S, return_parts=False):
    """Means and joint covariance of all output times from the embedded backward factorisation, in
    Nordsieck-scaled coordinates x_k h^k/k! (S = the scaling vector): unscaled arithmetic would bury
    the low-order variances under the rounding of the high-order ones."""
    cond = post.conditional
    nc = onp.asarray(cond.A).shape[0]
    mT, PT = embed.normal_np(post.marginal)
    D = mT.shape[0]
    means = [None] * (nc + 1)
    covs = [None] * (nc + 1)
    As = [None] * nc
    means[nc], covs[nc] = S * mT, PT * onp.outer(S, S)
    bs = [None] * nc
    for i in range(nc - 1, -1, -1):
        ci = tu.tree_map(lambda a: a[i], cond)
        A, bb, Q = embed.cond_np(ci)
        A = A * onp.outer(S, 1.0 / S)
        bb = S * bb
        Q = Q * onp.outer(S, S)
        As[i] = A
        bs[i] = bb
        means[i] = A @ means[i + 1] + bb
        covs[i] = A @ covs[i + 1] @ A.T + Q
    J = onp.zeros(((nc + 1) * D, (nc + 1) * D))
    for i in range(nc + 1):
        J[i * D:(i + 1) * D, i * D:(i + 1) * D] = covs[i]
        M = onp.eye(D)
        for j in range(i + 1, nc + 1):
            M = M @ As[j - 1]
            C = M @ covs[j]
            J[i * D:(i + 1) * D, j * D:(j + 1) * D] = C
            J[j * D:(j + 1) * D, i * D:(i + 1) * D] = C.T
    if return_parts:
        return onp.stack(means), J, As, bs
    return onp.stack(means), J


def execute(sc):
    cfg = sc["cfg"]
    q, d = cfg["q"], cfg["d"]
    n = q + 1
    D = n * d
    viol, probes, stats = [], {}, {}
    key = jax.random.PRNGKey(sc["key"])
    hm = float(onp.mean([s_[-1] for s_ in sc["script"][:-1]]))
    S = compare.nordsieck_scales(q, d, hm)
    if sc["source"] == "prior_grid":
        b = configs.build(cfg, with_ref=True)
        accs = [s[-1] for s in sc["script"][:-1]]
        grid = onp.concatenate([[b.t0], b.t0 + onp.cumsum(accs)])
        post = probdiffeq.MarkovSequence.from_grid(b.prior, grid=jnp.asarray(grid), reverse=False)
        ab, attempts, sol = "P" * len(accs), len(accs), None
        # reference joint law of the prior on the grid
        N1 = len(grid)
        m = b.m0
        P = b.P0
        one = [mpf(1)] * d
        means = [embed.vec_np(m)]
        covs = [embed.to_np(P)]
        Phis = []
        for h in accs:
            A, Qm = b.model.prior.transition(mpf(h), one)
            m = A * m
            P = A * P * A.T + Qm
            means.append(embed.vec_np(m))
            covs.append(embed.to_np(P))
            Phis.append(embed.to_np(A))
        J = onp.zeros((N1 * D, N1 * D))
        for i in range(N1):
            J[i * D:(i + 1) * D, i * D:(i + 1) * D] = covs[i]
            M = onp.eye(D)
            for j in range(i + 1, N1):
                M = Phis[j - 1] @ M
                C = covs[i] @ M.T
                J[i * D:(i + 1) * D, j * D:(j + 1) * D] = C
                J[j * D:(j + 1) * D, i * D:(i + 1) * D] = C.T
        means_want = onp.stack(means) * S[None, :]
        Sn = onp.tile(S, N1)
        J_want = J * onp.outer(Sn, Sn)
        label = "prior on a grid"
    else:
        b = configs.build(cfg, with_ref=False)
        post, sol, ab, attempts = get_posterior(sc, b)
        means_want, J_want = chain_joint(post, S)
        N1 = means_want.shape[0]
        label = sc["source"]
        # the factorisation's own marginals must be the returned smoothing marginals (sanity, C03 decides it)
        m_u = onp.stack([embed.normal_np_at(sol.u, i)[0] for i in range(N1)]) * S[None, :]
        if onp.max(onp.abs(m_u - means_want)) > 1e-6 * onp.max(onp.abs(m_u)):
            viol.append({"inv": "SAMPLE-means", "msg": "backward factorisation does not reproduce the returned smoothing means (see C03)"})
    # ---- zero draws: samples == means at every output time
    with flowseam.stepped(budget=50_000), randseam.scripted(randseam.Script()) as scr0:
        s0 = post.sample(key, shape=())
    z = flat_time_major(s0, N1) * S[None, :]
    e0 = float(onp.max(onp.abs(z - means_want)) / (onp.max(onp.abs(means_want)) + 1e-300))
    stats["zero_draw_err"] = e0
    if e0 > 1e-9:
        viol.append({"inv": "SAMPLE-zero", "msg": f"[{label}] with all draws zero the sample differs from the smoothing means: {e0:.2e}"})
    # ---- number and shape of the draws: one independent draw per state coordinate and output time
    ndraw = sum(int(onp.prod(shp)) for _, shp in scr0.normal_calls)
    stats["scalar_draws"] = ndraw
    if ndraw != N1 * D:
        viol.append({"inv": "SAMPLE-draws", "msg": f"[{label}] {ndraw} scalar normal draws consumed for {N1} output times x {D} state coordinates (expected {N1 * D})"})
    keys = [k for k, _ in scr0.normal_calls]
    if any(k is None for k in keys) or len(set(keys)) != len(keys):
        viol.append({"inv": "SAMPLE-keys", "msg": f"[{label}] keys handed to the normal source within one sample() call are not pairwise distinct"})
    if key_in(keys, key):
        viol.append({"inv": "SAMPLE-keys", "msg": f"[{label}] the caller's key is used directly for a draw"})
    # ---- one-hot draws identify the linear map column by column
    if not viol:
        calls = list(scr0.normal_calls)
        offsets = onp.cumsum([0] + [int(onp.prod(s)) for _, s in calls])
        L = onp.zeros((N1 * D, ndraw))
        col = 0
        for ci, (_, shp) in enumerate(calls):
            size = int(onp.prod(shp))
            for j in range(size):
                def fn(k, shape, ci=ci, j=j):
                    a = onp.zeros(int(onp.prod(shape)))
                    if k == ci:
                        a[j] = AMP
                    return a.reshape(shape)

                with flowseam.stepped(budget=50_000), randseam.scripted(randseam.Script(normal_fn=fn)):
                    sj = post.sample(key, shape=())
                L[:, col] = (flat_time_major(sj, N1) * S[None, :] - z).reshape(-1) / AMP
                col += 1
        G = L @ L.T
        v = onp.abs(onp.diag(J_want))
        sd = onp.sqrt(onp.maximum(v, 1e-8 * onp.max(v))) + 1e-300
        eg = float(onp.max(onp.abs(G - J_want) / onp.outer(sd, sd)))
        stats["gram_err"] = eg
        if eg > 1e-6:
            viol.append({"inv": "SAMPLE-gram", "msg": f"[{label}] Gram matrix of the draw-to-sample map differs from the joint covariance: {eg:.2e}"})
        probes["one_hot_columns"] = ndraw
    # ---- sample shapes are prepended; zero draws give the means in every batch member
    if not viol:
        shp = tuple(sc["shape"])
        with flowseam.stepped(budget=50_000), randseam.scripted(randseam.Script()):
            sb = post.sample(key, shape=shp)
        leaf0 = tu.tree_leaves(sb)[0]
        want0 = tu.tree_leaves(s0)[0]
        if tuple(leaf0.shape) != shp + tuple(want0.shape):
            viol.append({"inv": "SAMPLE-shape", "msg": f"[{label}] sample shape {tuple(leaf0.shape)} for requested {shp} and state shape {tuple(want0.shape)}"})
        else:
            ok = all(onp.allclose(onp.asarray(a), onp.broadcast_to(onp.asarray(w), a.shape), rtol=1e-12, atol=1e-300)
                     for a, w in zip(tu.tree_leaves(sb), tu.tree_leaves(s0)))
            if not ok:
                viol.append({"inv": "SAMPLE-shape", "msg": f"[{label}] batched zero-draw samples differ from the means in some batch member"})
        probes["batched_shape_checked"] = 1
    return {
        "violations": viol[:8],
        "stats": {"attempts": attempts, "sim_time": float(sum(s[-1] for s in sc["script"][:-1])), "scalar_draws_scripted": ndraw},
        "probes": probes,
        "faults": {"F7_zero_draws": 1, "F7_one_hot_draws": probes.get("one_hot_columns", 0)},
        "worst": stats,
        "abstract": ab,
        "abstract_key": digest_of([ab, sc["source"], sc["script"]]),
        "nontrivial": True,
        "cell": f"{cfg['ssm']}|{cfg['calib']}|{sc['source']}|{cfg['lin']}|q{q}|d{d}|{cfg['init']}",
        "mode": "stepped",
        "digest": digest_of([ab, stats]),
        "sample": {"cfg": {k: cfg[k] for k in ("ssm", "calib", "lin", "q", "d", "order", "init")}, "source": sc["source"],
                   "script": sc["script"], "shape": sc["shape"], "history": ab},
    }


def key_in(keys, key):
    kid = randseam.key_id(key)
    return kid in keys


def shrink_candidates(sc):
    n = len(sc["script"]) - 1
    if n > 2:
        for i in range(n):
            c = copy.deepcopy(sc)
            del c["script"][i]
            yield c
    for i in range(len(sc.get("placements", []))):
        c = copy.deepcopy(sc)
        del c["placements"][i]
        yield c
    cfg = sc["cfg"]
    for k, v in {"calib": "none", "init": "exact", "damp": 0.0, "lin": "ts0"}.items():
        if cfg[k] != v:
            c = copy.deepcopy(sc)
            c["cfg"][k] = v
            yield c
    if cfg["q"] > max(cfg["order"], 1):
        c = copy.deepcopy(sc)
        c["cfg"]["q"] = cfg["q"] - 1
        yield c
    if cfg["d"] > 1 and cfg["order"] == 1:
        pass
