"""C14 -- state-space factorisations agree wherever theory says they must.

Replicas (dense / isotropic / block-diagonal, or block-diagonal vs d scalar dense solves) process
the same history in lock step; after every accepted step and at every output the states are
embedded densely and compared.  Divergence is reported with the first diverging event.
"""

import copy

import jax.numpy as jnp
import numpy as onp
from probdiffeq import ivpsolve

from sim import compare, configs, embed, flowseam, scen
from sim.history import Recorder, digest_of
from sim.peers import RecSolver

PROPERTY = "C14"
RUN_TIMEOUT_S = 900

TOL_M = 1e-9
TOL_C = 1e-7


def gen(src, tier):
    kind = src.weighted("kind", [("ts0_triple", 4), ("iso_dense_adaptive", 2), ("decoupled_ts1", 2), ("scalarjac_ts1", 2)])
    strategy = src.choice("strategy", ["filter", "fixedpoint", "fixedinterval"])
    calib = src.choice("calib", ["none", "mle", "dynamic"])
    common = dict(strategy=strategy, calib=calib, qmax=6, priors=("iwp",), inits=("exact", "exact", "inexact"),
                  allow_constraint_init=False, lam_default=True, ssm="dense")
    if kind == "ts0_triple":
        cfg = configs.gen_config(src, lin="ts0", dmax=3, **common)
    elif kind == "iso_dense_adaptive":
        if strategy == "fixedinterval":
            common["strategy"] = "fixedpoint"
        cfg = configs.gen_config(src, lin="ts0", dmax=3, **common)
    elif kind == "decoupled_ts1":
        cfg = configs.gen_config(src, lin="ts1", dmax=3, decoupled=True, **common)
    else:
        cfg = configs.gen_config(src, lin="ts1", dmax=3, scalar_jac=True, orders=(1,), **common)
    if cfg["d"] == 1 and kind != "decoupled_ts1":
        cfg["d"] = 2
        cfg = configs.gen_config(src, lin=cfg["lin"], dmax=3, **{**common, "strategy": cfg["strategy"]},
                                 decoupled=(kind == "decoupled_ts1"), scalar_jac=(kind == "scalarjac_ts1"),
                                 **({"orders": (1,)} if kind == "scalarjac_ts1" else {}))
    sc = {"kind": kind, "cfg": cfg, "eps": 1e-8}
    if kind == "iso_dense_adaptive":
        sc["tol"] = 10 ** src.uniform("tol", -6, -2)
        sc["dt0"] = 10 ** src.uniform("dt0", -2.5, -0.5)
        sc["T"] = src.uniform("T", 0.3, 1.0)
        sc["ncp"] = src.randint("ncp", 0, 3)
        sc["control"] = {"kind": src.choice("ck", ["I", "PI"])}
        sc["fault"] = {"seed": src.subseed("fseed"), "p_reject": src.choice("p_rej", [0.0, 0.1]), "max_burst": 2}
    else:
        sc["script"] = scen.gen_history(src, nsteps=(3, 6), p_reject=0.4)
        n = len(sc["script"]) - 1
        sc["routine"] = "fixed_grid" if cfg["strategy"] == "fixedinterval" or src.flip("grid", 0.3) else "forced"
        sc["placements"] = scen.gen_placements(src, n, n=(0, 3))
        sc["final"] = scen.gen_final(src)
    return sc


def run_replica(b, sc):
    """Returns (sol, list of post-states of accepted steps, attempt log)."""
    if sc.get("routine") == "fixed_grid":
        import warnings

        accs = [s[-1] for s in sc["script"][:-1]]
        grid = onp.concatenate([[b.t0], b.t0 + onp.cumsum(accs)])
        rs = RecSolver(b.solver)
        with flowseam.stepped(budget=20_000), warnings.catch_warnings():
            warnings.simplefilter("ignore")
            sol = ivpsolve.solve_fixed_grid(solver=rs)(b.prior, grid=jnp.asarray(grid), damp=b.cfg["damp"])
        posts = [op["post"] for op in rs.ops if op["op"] == "step"]
        return sol, posts, [(float(op["t"]), op["dt"], True) for op in rs.ops if op["op"] == "step"], "F" * len(accs)
    save_at, T, clip, _ = scen.resolve_layout(sc["script"], b.t0, sc["placements"], sc["final"], sc["eps"])
    driver = "every_step" if b.cfg["strategy"] == "fixedinterval" else "save_at"
    if driver == "every_step":
        save_at = [save_at[0], save_at[-1]]
    r = scen.run_forced(b, sc["script"], save_at, clip=clip, eps=sc["eps"], driver=driver, rec=Recorder())
    steps = [op for op in r.rs.ops if op["op"] == "step"]
    posts = [op["post"] for op, e in zip(steps, r.err.log) if e[2]]
    return r.sol, posts, list(r.err.log), r.rec.abstract_string()


def embed_states(posts):
    return [embed.normal_np(p.u) for p in posts]


def kappa_of(cfg, hs):
    """Conditioning of the whitened residuals along the history (reference model, dense replica)."""
    b = configs.build(cfg, ssm="dense")
    hist = configs.ref_history(b, hs)
    return max(st["kappa"] for st in hist[1:])


def cmp_states(A, B_, q, d, h, label, viol, what, *, cov=True, tol_c=TOL_C, sel=None, tol_m=TOL_M):
    """A, B_: lists of (mean, cov); sel maps the first into the coordinates of the second."""
    for i, ((m1, P1), (m2, P2)) in enumerate(zip(A, B_)):
        em = compare.mean_err(m1, m2, q, d, h)
        if em > tol_m:
            viol.append({"inv": "DIVERGE-mean", "msg": f"[{label}] {what} {i}: means diverge: {em:.2e}"})
            return i
        if cov and onp.max(onp.abs(P2)) > 0:
            ec = compare.self_cov_err(P1, P2, q, d, h)
            if ec > tol_c:
                viol.append({"inv": "DIVERGE-cov", "msg": f"[{label}] {what} {i}: covariances diverge: {ec:.2e}"})
                return i
    return None


def outputs(sol):
    N = onp.asarray(sol.t).shape[0]
    return [embed.normal_np_at(sol.u, i) for i in range(N)]


def final_scale(sol):
    return onp.atleast_1d(onp.asarray(sol.output_scale, dtype=float)[-1])


def execute(sc):
    cfg = sc["cfg"]
    q, d = cfg["q"], cfg["d"]
    kind = sc["kind"]
    viol, probes, stats, incon = [], {}, {}, []
    calib = cfg["calib"]
    cal_tol = TOL_C
    scale_tol = 1e-6
    tm = TOL_M
    skip_scaled = False
    if calib != "none" and sc.get("script"):
        kap = kappa_of(cfg if kind != "decoupled_ts1" else {**cfg, "ssm": "blockdiag"}, [s_[-1] for s_ in sc["script"][:-1]])
        stats["kappa_max"] = kap
        cal_tol = TOL_C + 100 * compare.scale_tol(kap)
        scale_tol = 10 * compare.scale_tol(kap)
        skip_scaled = compare.ill_conditioned(kap)
        if calib == "dynamic":
            tm = TOL_M * max(1.0, compare.scale_tol(kap) / 1e-8)
    ab = ""
    attempts = 0
    if kind == "ts0_triple":
        reps = {s: configs.build(cfg, ssm=s, with_ref=False) for s in ("dense", "isotropic", "blockdiag")}
        runs = {s: run_replica(b, sc) for s, b in reps.items()}
        ab = runs["dense"][3]
        attempts = len(runs["dense"][2])
        h = float(onp.mean([e[1] for e in runs["dense"][2] if e[2]]))
        # identical forced histories by construction; check anyway
        for s in ("isotropic", "blockdiag"):
            if [(e[1], e[2]) for e in runs[s][2]] != [(e[1], e[2]) for e in runs["dense"][2]]:
                viol.append({"inv": "DIVERGE-history", "msg": f"[dense vs {s}] forced histories differ"})
        if not viol:
            D, I, B_ = (embed_states(runs[s][1]) for s in ("dense", "isotropic", "blockdiag"))
            oD, oI, oB = (outputs(runs[s][0]) for s in ("dense", "isotropic", "blockdiag"))
            # dense == isotropic in every mode
            cmp_states(I, D, q, d, h, "dense vs isotropic", viol, "state after accepted step", tol_c=cal_tol, tol_m=tm, cov=not skip_scaled)
            if not viol:
                cmp_states(oI, oD, q, d, h, "dense vs isotropic", viol, "output", tol_c=cal_tol, tol_m=tm, cov=not skip_scaled)
            if calib != "none" and not viol:
                sD, sI = final_scale(runs["dense"][0]), final_scale(runs["isotropic"][0])
                if not skip_scaled and abs(sD[0] - sI[0]) > scale_tol * abs(sD[0]):
                    viol.append({"inv": "DIVERGE-scale", "msg": f"[dense vs isotropic] calibrated output scales differ: {sD[0]} vs {sI[0]}"})
            # blockdiag: means in none/MLE, covariances in none, MLE scale^2 averages to the dense one
            if calib in ("none", "mle") and not viol:
                cmp_states(B_, D, q, d, h, "dense vs blockdiag", viol, "state after accepted step", cov=True)
                if not viol:
                    cmp_states(oB, oD, q, d, h, "dense vs blockdiag", viol, "output", cov=(calib == "none"))
                if calib == "mle" and not viol:
                    sD, sB = final_scale(runs["dense"][0]), final_scale(runs["blockdiag"][0])
                    rms = float(onp.sqrt(onp.mean(sB**2)))
                    stats["mle_split_rel"] = abs(rms - sD[0]) / sD[0]
                    if not skip_scaled and abs(rms - sD[0]) > scale_tol * sD[0]:
                        viol.append({"inv": "DIVERGE-scale", "msg": f"block-diagonal MLE scales {sB.tolist()} are not the per-dimension split of the dense residual energy (rms {rms} vs dense {sD[0]})"})
            probes["triple_compared"] = 1
    elif kind == "iso_dense_adaptive":
        T = cfg["t0"] + sc["T"]
        cps = [cfg["t0"] + f * sc["T"] for f in [0.31, 0.55, 0.83][: sc["ncp"]]]
        save_at = [cfg["t0"]] + cps + [T]
        runs = {}
        for s in ("dense", "isotropic"):
            b = configs.build(cfg, ssm=s, with_ref=False)
            runs[s] = scen.run_natural(b, save_at, atol=sc["tol"], rtol=sc["tol"], dt0=sc["dt0"], eps=sc["eps"],
                                       control_spec=sc["control"], fault=dict(sc["fault"]), rec=Recorder())
        l1, l2 = runs["dense"].err.log, runs["isotropic"].err.log
        ab = runs["dense"].rec.abstract_string()
        attempts = len(l1)
        # step sizes come from error estimates that agree only to rounding x residual conditioning
        kap = kappa_of(cfg, [e[1] for e in l1 if e[2] >= 1.0][:40])
        stats["kappa_max"] = kap
        RT = max(1e-6, 100 * compare.scale_tol(kap))
        if RT > 1e-3:
            incon.append("ill_conditioned")
        borderline = any(abs(e[3] - 1.0) < 10 * RT for e in l1)
        same = len(l1) == len(l2) and all((a[2] >= 1) == (b_[2] >= 1) and abs(a[1] - b_[1]) <= RT * a[1] for a, b_ in zip(l1, l2))
        if incon:
            pass
        elif not same:
            if borderline:
                incon.append("borderline")
            else:
                k = next((i for i, (a, b_) in enumerate(zip(l1, l2)) if (a[2] >= 1) != (b_[2] >= 1) or abs(a[1] - b_[1]) > RT * a[1]), min(len(l1), len(l2)))
                viol.append({"inv": "DIVERGE-history", "msg": f"[dense vs isotropic] adaptive attempt histories diverge at attempt {k} (of {len(l1)})"})
        else:
            h = float(onp.mean([e[1] for e in l1]))
            cmp_states(outputs(runs["isotropic"].sol), outputs(runs["dense"].sol), q, d, h, "dense vs isotropic (adaptive)", viol, "output", tol_c=max(1e-4, 100 * RT), tol_m=max(1e-6, 10 * RT), cov=(calib == "none"))
            probes["adaptive_pair_same_history"] = 1
    elif kind == "decoupled_ts1":
        bB = configs.build(cfg, ssm="blockdiag", with_ref=False)
        solB, postsB, logB, ab = run_replica(bB, sc)
        attempts = len(logB)
        h = float(onp.mean([e[1] for e in logB if e[2]]))
        SB = embed_states(postsB)
        oB = outputs(solB)
        for i in range(d):
            ci = copy.deepcopy(cfg)
            ci["d"] = 1
            order = cfg["order"]
            terms_i = []
            for (c_, es, et) in cfg["poly"]["terms"][i]:
                es_i = [es[k * d + i] for k in range(order)]
                assert sum(es) == sum(es_i), "problem is not decoupled"
                terms_i.append([c_, es_i, et])
            ci["poly"] = {"d": 1, "order": order, "terms": [terms_i]}
            ci["u0"], ci["du0"], ci["lam"] = [cfg["u0"][i]], [cfg["du0"][i]], [cfg["lam"][i]]
            bi = configs.build(ci, ssm="dense", with_ref=False)
            soli, postsi, logi, _ = run_replica(bi, sc)
            n = q + 1
            pick = [k * d + i for k in range(n)]
            Ssel = [(m[pick], P[onp.ix_(pick, pick)]) for (m, P) in SB]
            osel = [(m[pick], P[onp.ix_(pick, pick)]) for (m, P) in oB]
            cmp_states(Ssel, embed_states(postsi), q, 1, h, f"blockdiag dim {i} vs scalar dense", viol, "state after accepted step", tol_c=cal_tol, tol_m=tm, cov=not skip_scaled)
            if not viol:
                cmp_states(osel, outputs(soli), q, 1, h, f"blockdiag dim {i} vs scalar dense", viol, "output", tol_c=cal_tol, tol_m=tm, cov=not skip_scaled)
            if calib != "none" and not viol:
                sB, si = final_scale(solB), final_scale(soli)
                if not skip_scaled and abs(sB[i] - si[0]) > scale_tol * abs(si[0]):
                    viol.append({"inv": "DIVERGE-scale", "msg": f"block-diagonal scale of dimension {i} ({sB[i]}) differs from the scalar dense solve ({si[0]})"})
            # off-diagonal blocks of the block-diagonal model must be zero
            if viol:
                break
        probes["scalar_replicas_compared"] = d
    else:  # scalarjac_ts1: isotropic == dense
        bD = configs.build(cfg, ssm="dense", with_ref=False)
        bI = configs.build(cfg, ssm="isotropic", with_ref=False)
        solD, postsD, logD, ab = run_replica(bD, sc)
        solI, postsI, logI, _ = run_replica(bI, sc)
        attempts = len(logD)
        h = float(onp.mean([e[1] for e in logD if e[2]]))
        cmp_states(embed_states(postsI), embed_states(postsD), q, d, h, "dense vs isotropic (scalar Jacobian, TS1)", viol, "state after accepted step", tol_c=cal_tol, tol_m=tm, cov=not skip_scaled)
        if not viol:
            cmp_states(outputs(solI), outputs(solD), q, d, h, "dense vs isotropic (scalar Jacobian, TS1)", viol, "output", tol_c=cal_tol, tol_m=tm, cov=not skip_scaled)
        if calib != "none" and not viol:
            sD, sI = final_scale(solD), final_scale(solI)
            if not skip_scaled and abs(sD[0] - sI[0]) > scale_tol * abs(sD[0]):
                viol.append({"inv": "DIVERGE-scale", "msg": f"[dense vs isotropic, TS1] calibrated scales differ: {sD[0]} vs {sI[0]}"})
        probes["scalarjac_pair_compared"] = 1
    return {
        "violations": viol[:8],
        "status": "inconclusive" if incon and not viol else "ok",
        "inconclusive": incon,
        "stats": {"attempts": attempts, "sim_time": float(sc.get("T", 0.0)) or float(sum(s[-1] for s in sc.get("script", [[0.0]])[:-1])),
                  "replicas": 3 if kind == "ts0_triple" else (d + 1 if kind == "decoupled_ts1" else 2)},
        "probes": probes,
        "faults": {"F10_rejected_attempts": ab.count("R"), "F3_checkpoints": ab.count("b") + ab.count("a")},
        "worst": stats,
        "abstract": ab[:300],
        "abstract_key": digest_of([ab, kind, sc.get("script")]),
        "nontrivial": True,
        "cell": f"{kind}|{calib}|{cfg['strategy']}|q{cfg['q']}|d{d}|o{cfg['order']}|{cfg['init']}|{sc.get('routine', 'adaptive')}",
        "mode": "stepped",
        "digest": digest_of([ab, kind]),
        "sample": {"kind": kind, "cfg": {k: cfg[k] for k in ("calib", "lin", "q", "d", "order", "strategy", "init", "damp")},
                   "script": sc.get("script"), "history": ab[:120]},
    }


def shrink_candidates(sc):
    if sc.get("script"):
        n = len(sc["script"]) - 1
        if n > 2:
            for i in range(n):
                c = copy.deepcopy(sc)
                del c["script"][i]
                yield c
        for i, s in enumerate(sc["script"]):
            if len(s) > 1:
                c = copy.deepcopy(sc)
                c["script"][i] = [s[-1]]
                yield c
    for i in range(len(sc.get("placements", []))):
        c = copy.deepcopy(sc)
        del c["placements"][i]
        yield c
    cfg = sc["cfg"]
    for k, v in {"init": "exact", "damp": 0.0, "calib": "none", "strategy": "filter"}.items():
        if cfg[k] != v:
            c = copy.deepcopy(sc)
            c["cfg"][k] = v
            if k == "strategy" and sc.get("routine") == "fixed_grid":
                pass
            yield c
    if cfg["q"] > max(cfg["order"], 1):
        c = copy.deepcopy(sc)
        c["cfg"]["q"] = cfg["q"] - 1
        yield c
