"""C15 -- results are invariant under pytree structure, permutation, jit and vmap.

Execution schedule as the simulated dimension: the same solve is executed Python-stepped (the
oracle), lax-eager, jitted, and inside vmap batches whose size, member position and batch-mates
(needing 1x..10x the steps: other tolerances / final times / initial values) the seed decides.
Structure part: random nested dict/tuple/namedtuple states vs the flattened problem; permutations.
"""

import collections
import copy
import math

import jax
import jax.flatten_util
import jax.numpy as jnp
import jax.tree_util as tu
import numpy as onp
from probdiffeq import ivpsolve, probdiffeq

from sim import compare, configs, flowseam
from sim.history import digest_of
from sim.refmodel import Poly

PROPERTY = "C15"
RUN_TIMEOUT_S = 1200

Pair = collections.namedtuple("Pair", ["a", "b"])


def gen(src, tier):
    part = src.weighted("part", [("schedule", 3), ("structure", 2)])
    ssm = src.choice("ssm", configs.SSMS)
    calib = src.choice("calib", configs.CALIBS)
    lin = src.choice("lin", ["ts0", "ts1"])
    q = src.randint("q", 1, 4)
    sc = {"part": part, "ssm": ssm, "calib": calib, "lin": lin, "q": q}
    if part == "schedule":
        d = src.randint("d", 1, 3)
        sc["d"] = d
        sc["poly"] = configs.gen_poly(src, d, 1).to_json()
        sc["routine"] = src.weighted("routine", [("adaptive", 3), ("fixed", 1)])
        sc["strategy"] = src.choice("strategy", ["filter", "fixedpoint"]) if sc["routine"] == "adaptive" else src.choice("strategy", ["filter", "fixedinterval"])
        B = src.randint("batch", 2, 5)
        sc["members"] = []
        for _ in range(B):
            sc["members"].append({"u0": [src.rounded("u0", 0.2, 1.0) for _ in range(d)],
                                  "tol": 10 ** src.uniform("tol", -6, -2), "T": src.uniform("T", 0.2, 1.0)})
        # one member needs many more steps than the others
        if src.flip("skew", 0.7):
            k = src.randint("slow", 0, B - 1)
            sc["members"][k]["tol"] = 10 ** src.uniform("tol_slow", -8, -6.5)
            sc["members"][k]["T"] = src.uniform("T_slow", 0.8, 1.2)
        sc["pos"] = src.randint("pos", 0, B - 1)
        sc["ncp"] = src.randint("ncp", 0, 3)
        sc["nsteps"] = src.randint("nsteps", 3, 12)
        # the first step after an exact Taylor initialisation has a residual of size dt0^q / q!: below 1e-10 of the
        # terms it is made of, the error estimate is rounding noise and every execution schedule (stepped, eager, jit,
        # vmap) legitimately proposes a different second step (observed: std 4e-6 apart for q = 4, dt0 = 0.004).  Tiny
        # dt0 is fault F5 of C01 / C06; here the initial step is kept well-conditioned.
        sc["dt0"] = max(10 ** src.uniform("dt0", -2.5, -0.7), (math.factorial(q) * 1e-6) ** (1.0 / q))
    else:
        shapes = []
        total = 0
        for _ in range(src.randint("nleaves", 1, 4)):
            rank = src.weighted("rank", [(0, 2), (1, 3), (2, 2), (3, 1)])
            shp = [src.randint("dim", 1, 2) for _ in range(rank)]
            if total + int(onp.prod(shp)) > 5:
                shp = []
            shapes.append(shp)
            total += int(onp.prod(shp)) if shp else 1
        sc["shapes"] = shapes
        sc["container"] = src.choice("container", ["dict", "tuple", "namedtuple", "nested", "list"])
        D = total
        sc["d"] = D
        sc["poly"] = configs.gen_poly(src, D, 1).to_json()
        sc["u0"] = [src.rounded("u0", 0.2, 1.0) for _ in range(D)]
        sc["perm_seed"] = src.subseed("perm")
        sc["routine"] = src.choice("routine", ["adaptive", "fixed"])
        sc["strategy"] = src.choice("strategy", ["filter", "fixedpoint"]) if sc["routine"] == "adaptive" else src.choice("strategy", ["filter", "fixedinterval"])
        sc["tol"] = 10 ** src.uniform("tol", -6, -2)
        sc["T"] = src.uniform("T", 0.3, 1.0)
        sc["nsteps"] = src.randint("nsteps", 4, 10)
        sc["ncp"] = src.randint("ncp", 1, 3)
    return sc


def make_solver(sc, ssm, vf):
    strat = configs.make_strategy(sc["strategy"])
    c = ssm.constraint_ode_ts0(vf) if sc["lin"] == "ts0" else ssm.constraint_ode_ts1(vf)
    if sc["calib"] == "none":
        return probdiffeq.solver(strategy=strat, constraint=c), c
    if sc["calib"] == "mle":
        return probdiffeq.solver_mle(strategy=strat, constraint=c), c
    return probdiffeq.solver_dynamic(strategy=strat, constraint=c), c


def solve_fn(sc, poly, *, while_loop=None, tree_def=None, err_wrap=None):
    """A function (u0, grid_or_save_at, tol) -> (mean of coefficient 0 [time, ...], std, num_steps, output_scale, t)."""
    d = poly.d
    if tree_def is None:
        def f(y, *, t):
            return poly.eval_jnp([y[i] for i in range(d)], t)
    else:
        unravel = tree_def

        def f(y, *, t):
            flat, _ = jax.flatten_util.ravel_pytree(y)
            return unravel(poly.eval_jnp([flat[i] for i in range(d)], t))

    vf = probdiffeq.ode(f, jacobian=probdiffeq.jacobian_materialize())
    ssm = getattr(probdiffeq, "state_space_model_" + sc["ssm"])()

    def solve(u0, ts, tol):
        tc, _ = probdiffeq.jetexpand_ode_unroll(num=sc["q"])(vf, (u0,), t=ts[0])
        prior = ssm.prior_wiener_integrated(tc)
        solver, c = make_solver(sc, ssm, vf)
        if sc["routine"] == "fixed":
            sol = ivpsolve.solve_fixed_grid(solver=solver)(prior, grid=ts)
        else:
            err = probdiffeq.error_residual_std(constraint=c)
            if err_wrap is not None:
                err = err_wrap(err)
            kw = {} if while_loop is None else {"while_loop": while_loop}
            sol = ivpsolve.solve_adaptive_save_at(solver=solver, error=err, warn=False, **kw)(
                prior, save_at=ts, atol=tol, rtol=tol, dt0=sc.get("dt0", 0.05))
        return sol.u.mean[0], sol.u.std[0], jnp.asarray(sol.num_steps, dtype=float), sol.output_scale, sol.t

    return solve


def times_for(sc, T, n_cp):
    if sc["routine"] == "fixed":
        return onp.linspace(0.0, T, sc["nsteps"] + 1)
    return onp.array([0.0] + [T * f for f in [0.31, 0.55, 0.83][:n_cp]] + [T])


def leaves_np(x):
    return [onp.asarray(v, dtype=float) for v in tu.tree_leaves(x)]


def cmp_out(a, b_, label, viol, probes, tol=1e-9):
    """a, b_: outputs of solve (mean, std, num_steps, scale, t)."""
    ok_bits = True
    for name, x, y in zip(("mean", "std", "num_steps", "output_scale", "t"), a, b_):
        for lx, ly in zip(leaves_np(x), leaves_np(y)):
            if lx.shape != ly.shape:
                viol.append({"inv": "SCHED-shape", "msg": f"[{label}] {name}: shapes differ {lx.shape} vs {ly.shape}"})
                return
            if not onp.all(onp.isfinite(lx)):
                viol.append({"inv": "SCHED-finite", "msg": f"[{label}] {name} contains non-finite values"})
                return
            if not onp.array_equal(lx, ly):
                ok_bits = False
            if name == "num_steps":
                if not onp.array_equal(lx, ly):
                    viol.append({"inv": "SCHED-history", "msg": f"[{label}] step counts differ: {lx.tolist()} vs {ly.tolist()}"})
                    return
            else:
                den = onp.max(onp.abs(ly)) + 1e-300
                e = float(onp.max(onp.abs(lx - ly)) / den)
                lim = tol if name in ("mean", "t") else max(tol, 1e-6)  # std / scale inherit the residual conditioning
                if e > lim:
                    viol.append({"inv": "SCHED-value", "msg": f"[{label}] {name} differs from the solo stepped run: rel {e:.2e}"})
                    return
    if ok_bits:
        probes["bitwise_" + label.split(" ")[0]] = probes.get("bitwise_" + label.split(" ")[0], 0) + 1


def exec_schedule(sc):
    poly = Poly.from_json(sc["poly"])
    viol, probes, stats = [], {}, {}
    members = sc["members"]
    B = len(members)
    ts_all = [times_for(sc, m["T"], sc["ncp"]) for m in members]
    u0s = onp.array([m["u0"] for m in members])
    tols = onp.array([m["tol"] for m in members])
    # ---- oracle: solo stepped run of every member
    solo = []
    steps = []
    for i in range(B):
        with flowseam.stepped(budget=100_000):
            out = solve_fn(sc, poly, while_loop=flowseam.py_while)(jnp.asarray(u0s[i]), jnp.asarray(ts_all[i]), tols[i])
        out = tu.tree_map(onp.asarray, out)
        solo.append(out)
        steps.append(float(onp.asarray(out[2]).reshape(-1)[-1]))
    stats["steps"] = steps
    ratio = max(steps) / max(1.0, min(steps))
    probes["batch_step_ratio>=5"] = int(ratio >= 5)
    k = sc["pos"]
    f = solve_fn(sc, poly)
    # ---- lax-eager and jit of the member at position k
    out_e = f(jnp.asarray(u0s[k]), jnp.asarray(ts_all[k]), tols[k])
    cmp_out(out_e, solo[k], "lax-eager member", viol, probes)
    if not viol:
        out_j = jax.jit(f)(jnp.asarray(u0s[k]), jnp.asarray(ts_all[k]), tols[k])
        cmp_out(out_j, solo[k], "jit member", viol, probes)
    # ---- vmap over the whole batch
    if not viol:
        out_v = jax.jit(jax.vmap(f))(jnp.asarray(u0s), jnp.asarray(onp.stack(ts_all)), jnp.asarray(tols))
        for i in range(B):
            cmp_out(tu.tree_map(lambda a: a[i], out_v), solo[i], f"vmap member {i} of {B} (steps {steps})", viol, probes)
            if viol:
                break
    return viol, probes, stats, f"B{B}:" + ",".join(str(int(s)) for s in steps), int(sum(steps))


def make_tree(sc, flat):
    vals = []
    off = 0
    for shp in sc["shapes"]:
        n = int(onp.prod(shp)) if shp else 1
        vals.append(jnp.asarray(flat[off:off + n]).reshape(shp))
        off += n
    kind = sc["container"]
    if kind == "dict":
        return {f"k{i}": v for i, v in enumerate(vals)}
    if kind == "tuple":
        return tuple(vals)
    if kind == "list":
        return list(vals)
    if kind == "namedtuple":
        return Pair(a=vals[0], b=tuple(vals[1:]))
    return {"x": Pair(a=vals[0], b={"y": tuple(vals[1:])})}


def exec_structure(sc):
    import random

    poly = Poly.from_json(sc["poly"])
    D = sc["d"]
    viol, probes, stats = [], {}, {}
    u0 = onp.array(sc["u0"])
    ts = times_for(sc, sc["T"], sc["ncp"])
    f_flat = jax.jit(solve_fn(sc, poly))
    out_flat = tu.tree_map(onp.asarray, f_flat(jnp.asarray(u0), jnp.asarray(ts), sc["tol"]))
    # ---- pytree state vs flattened problem
    tree0 = make_tree(sc, u0)
    flat0, unravel = jax.flatten_util.ravel_pytree(tree0)
    perm_leaf = onp.asarray(flat0)  # jax's leaf order may differ from construction order (dict keys are sorted)
    # the flattened problem in jax's ravel order: u_flat = ravel(tree); f_flat'(v) = ravel(f_tree(unravel(v)))
    f_tree = jax.jit(solve_fn(sc, poly, tree_def=unravel))
    out_tree = f_tree(tree0, jnp.asarray(ts), sc["tol"])
    mean_t, std_t = out_tree[0], out_tree[1]
    iso = sc["ssm"] == "isotropic"  # documented: one standard deviation per coefficient, shared by all dimensions
    if tu.tree_structure(mean_t) != tu.tree_structure(tree0) or (not iso and tu.tree_structure(std_t) != tu.tree_structure(tree0)):
        viol.append({"inv": "TREE-structure", "msg": f"mean/std are not returned in the caller's structure: {tu.tree_structure(mean_t)} vs {tu.tree_structure(tree0)}"})
    else:
        for lm, l0 in zip(tu.tree_leaves(mean_t), tu.tree_leaves(tree0)):
            if tuple(lm.shape) != (len(ts),) + tuple(l0.shape):
                viol.append({"inv": "TREE-structure", "msg": f"leaf of shape {tuple(l0.shape)} is returned with shape {tuple(lm.shape)} for {len(ts)} requested times"})
                break
    if not viol:
        def flat_time(x):
            return onp.stack([onp.asarray(jax.flatten_util.ravel_pytree(tu.tree_map(lambda a: a[i], x))[0]) for i in range(len(ts))])

        m_tree = flat_time(mean_t)
        s_tree = onp.asarray(std_t).reshape(len(ts), -1) if iso else flat_time(std_t)
        # the tree problem IS the flat problem in ravel coordinates, and our vector field acts on ravel coordinates
        m_flat, s_flat = out_flat[0], out_flat[1]
        # ravel(tree0) is a permutation of u0 only if the container reorders leaves; recompute the flat oracle accordingly
        if not onp.array_equal(perm_leaf, u0):
            out_flat2 = tu.tree_map(onp.asarray, f_flat(jnp.asarray(perm_leaf), jnp.asarray(ts), sc["tol"]))
            m_flat, s_flat = out_flat2[0], out_flat2[1]
            ns_flat = out_flat2[2]
        else:
            ns_flat = out_flat[2]
        e = float(onp.max(onp.abs(m_tree - m_flat)) / (onp.max(onp.abs(m_flat)) + 1e-300))
        s_flat = onp.asarray(s_flat).reshape(len(ts), -1)
        es = float(onp.max(onp.abs(s_tree - s_flat)) / (onp.max(onp.abs(s_flat)) + 1e-300))
        stats["tree_vs_flat"] = max(e, es)
        if e > 1e-9 or es > 1e-7:
            viol.append({"inv": "TREE-value", "msg": f"pytree-structured solve differs from the flattened problem: mean {e:.2e}, std {es:.2e} ({sc['container']}, leaf shapes {sc['shapes']})"})
        if not onp.array_equal(onp.asarray(out_tree[2]), ns_flat):
            viol.append({"inv": "TREE-value", "msg": "pytree-structured solve takes a different number of steps than the flattened problem"})
        probes["tree_vs_flat_compared"] = 1
    # ---- permutation of the components
    if not viol and D >= 2:
        rng = random.Random(sc["perm_seed"])
        Dp = min(D, 4)
        pi = list(range(D))
        head = pi[:Dp]
        rng.shuffle(head)
        pi[:Dp] = head
        pi = onp.array(pi)
        inv = onp.argsort(pi)
        terms = poly.to_json()["terms"]
        # g(v) = f(v[inv])[pi]  with v = u[pi]
        new_terms = []
        for i in range(D):
            row = []
            for c, es_, et in terms[pi[i]]:
                es2 = [0] * D
                for j, e_ in enumerate(es_):
                    es2[inv[j]] = e_
                row.append([c, es2, et])
            new_terms.append(row)
        poly_p = Poly(D, 1, new_terms)
        f_perm = jax.jit(solve_fn(sc, poly_p))
        out_p = tu.tree_map(onp.asarray, f_perm(jnp.asarray(u0[pi]), jnp.asarray(ts), sc["tol"]))
        e = float(onp.max(onp.abs(out_p[0] - out_flat[0][:, pi])) / (onp.max(onp.abs(out_flat[0])) + 1e-300))
        sp, sf = onp.asarray(out_p[1]).reshape(len(ts), -1), onp.asarray(out_flat[1]).reshape(len(ts), -1)
        es = float(onp.max(onp.abs(sp - (sf if iso else sf[:, pi]))) / (onp.max(onp.abs(sf)) + 1e-300))
        stats["permutation"] = max(e, es)
        same_steps = onp.array_equal(out_p[2], out_flat[2])
        if not same_steps:
            # margin rule, decided on the recorded attempt histories (stepped twins with a recording estimator proxy):
            # the first diverging attempt must be a borderline decision, otherwise the permutation changed the history
            from sim.peers import RecErr

            logs = []
            for pol, uu in ((poly, u0), (poly_p, u0[pi])):
                holder = {}

                def wrap(e, holder=holder):
                    holder["e"] = RecErr(e)
                    return holder["e"]

                with flowseam.stepped(budget=100_000):
                    solve_fn(sc, pol, while_loop=flowseam.py_while, err_wrap=wrap)(jnp.asarray(uu), jnp.asarray(ts), sc["tol"])
                logs.append(holder["e"].log)
            k = next((i for i, (a, b_) in enumerate(zip(*logs)) if abs(a[1] - b_[1]) > 1e-9 * a[1] or (a[3] >= 1) != (b_[3] >= 1) or abs(a[3] / b_[3] - 1) > 1e-5), None)
            if k is None:
                k = min(len(logs[0]), len(logs[1])) - 1
            a, b_ = logs[0][k], logs[1][k]
            borderline = abs(a[3] - 1.0) < 1e-4 or abs(b_[3] - 1.0) < 1e-4
            if borderline or (abs(a[1] - b_[1]) <= 1e-9 * a[1] and abs(a[3] / b_[3] - 1) <= 1e-5):
                return viol, probes, stats, "perm", 0, ["borderline_steps_under_permutation"]
            viol.append({"inv": "PERM-history", "msg": f"permuting the state components changes the step history: attempt {k} has dt {a[1]:.6g} vs {b_[1]:.6g}, acceptance quantity {a[3]:.6g} vs {b_[3]:.6g} (perm {pi.tolist()}, {sc['ssm']})"})
            return viol, probes, stats, "perm", 0, []
        if e > 1e-8 or es > 1e-6:
            viol.append({"inv": "PERM-value", "msg": f"permuting the state components does not permute the solution: mean {e:.2e}, std {es:.2e} (perm {pi.tolist()})"})
        probes["permutation_compared"] = 1
    return viol, probes, stats, "tree:" + sc["container"], int(onp.asarray(out_flat[2]).reshape(-1)[-1]), []


def execute(sc):
    incon = []
    if sc["part"] == "schedule":
        viol, probes, stats, ab, steps = exec_schedule(sc)
        faults = {"F6_modes_compared": 3, "F6_vmap_batch_members": len(sc["members"])}
    else:
        viol, probes, stats, ab, steps, incon = exec_structure(sc)
        faults = {"F6_modes_compared": 1}
    return {
        "violations": viol[:6],
        "status": "inconclusive" if incon and not viol else "ok",
        "inconclusive": incon,
        "stats": {"accepted": steps, "sim_time": float(sum(m["T"] for m in sc.get("members", [])) or sc.get("T", 0.0))},
        "probes": probes,
        "faults": faults,
        "worst": stats,
        "abstract": ab,
        "abstract_key": digest_of([ab, sc["poly"], sc.get("members"), sc.get("shapes")]),
        "nontrivial": True,
        "cell": f"{sc['part']}|{sc['ssm']}|{sc['calib']}|{sc['strategy']}|{sc['lin']}|{sc['routine']}|q{sc['q']}",
        "mode": "stepped+lax+jit+vmap" if sc["part"] == "schedule" else "jit",
        "digest": digest_of([ab, stats]),
        "sample": {k: sc[k] for k in sc if k not in ("poly",)},
    }


def shrink_candidates(sc):
    if sc["part"] == "schedule":
        if len(sc["members"]) > 2:
            for i in range(len(sc["members"])):
                if i != sc["pos"]:
                    c = copy.deepcopy(sc)
                    del c["members"][i]
                    c["pos"] = sc["pos"] - (1 if i < sc["pos"] else 0)
                    yield c
        if sc["ncp"]:
            c = copy.deepcopy(sc)
            c["ncp"] = 0
            yield c
    for k, v in {"calib": "none", "lin": "ts0", "ssm": "dense", "q": 1}.items():
        if sc[k] != v:
            c = copy.deepcopy(sc)
            c[k] = v
            yield c
