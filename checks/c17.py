"""C17 -- Jacobian handlers return exact or exactly-unbiased Jacobian blocks.

The random source is the simulated component: backend.random.rademacher is scripted with the
COMPLETE sign cube, so the handler's own average over its probes is the average over all probes
and must equal the exact blocks.  Key protocol is checked over a sequence of calls threaded with
the returned state; corrupted shapes must raise.
"""

import copy
import itertools

import jax
import jax.numpy as jnp
import numpy as onp
from probdiffeq import probdiffeq

from sim import randseam
from sim.history import digest_of

PROPERTY = "C17"
RUN_TIMEOUT_S = 300


def gen(src, tier):
    cap = 12 if tier == "quick" else 14
    while True:
        n_in, n_out, d = src.randint("n_in", 1, 4), src.randint("n_out", 1, 4), src.randint("d", 1, 4)
        if max(n_in, n_out) * d <= cap:
            break
    terms = []
    for m in range(n_out):
        row = []
        for i in range(d):
            ts = []
            for _ in range(src.randint("nterms", 1, 3)):
                es = [[0] * d for _ in range(n_in)]
                for _ in range(src.randint("deg", 1, 3)):
                    es[src.randint("a", 0, n_in - 1)][src.randint("b", 0, d - 1)] += 1
                ts.append([src.rounded("c", -1.5, 1.5), es])
            row.append(ts)
        terms.append(row)
    x = [[src.rounded("x", -1.2, 1.2) for _ in range(d)] for _ in range(n_in)]
    calls = [src.choice("call", ["trace", "diag"]) for _ in range(src.randint("ncalls", 2, 4))]
    corrupt = src.choice("corrupt", ["x_rank1", "x_rank3", "out_trailing", "out_list", "out_rank1", "x_list"])
    return {"n_in": n_in, "n_out": n_out, "d": d, "terms": terms, "x": x, "mode": src.choice("mode", ["fwd", "rev"]),
            "calls": calls, "seed": src.randint("seed", 0, 10**6), "corrupt": corrupt}


def make_fun(sc):
    n_out, d = sc["n_out"], sc["d"]
    terms = sc["terms"]

    def fun(x):
        rows = []
        for m in range(n_out):
            row = []
            for i in range(d):
                s = 0.0
                for c, es in terms[m][i]:
                    v = c
                    for a, er in enumerate(es):
                        for b_, e in enumerate(er):
                            if e:
                                v = v * x[a, b_] ** e
                    s = s + v
                row.append(s)
            rows.append(jnp.stack([jnp.asarray(r, dtype=float) * 1.0 for r in row]))
        return jnp.stack(rows)

    return fun


def exact_jac(sc):
    """J[m, i, n, j] = d f[m,i] / d x[n,j], computed from the coefficient table (no AD)."""
    n_in, n_out, d = sc["n_in"], sc["n_out"], sc["d"]
    x = onp.asarray(sc["x"], dtype=float)
    J = onp.zeros((n_out, d, n_in, d))
    F = onp.zeros((n_out, d))
    for m in range(n_out):
        for i in range(d):
            for c, es in sc["terms"][m][i]:
                es = onp.asarray(es)
                F[m, i] += c * onp.prod(x**es)
                for n in range(n_in):
                    for j in range(d):
                        if es[n, j] == 0:
                            continue
                        e2 = es.copy()
                        e2[n, j] -= 1
                        J[m, i, n, j] += c * es[n, j] * onp.prod(x**e2)
    return F, J


def cube(n, d):
    k = n * d
    signs = onp.array(list(itertools.product([-1.0, 1.0], repeat=k)))
    return signs.reshape((2**k, n, d))


def execute(sc):
    n_in, n_out, d = sc["n_in"], sc["n_out"], sc["d"]
    fun = make_fun(sc)
    x = jnp.asarray(sc["x"], dtype=float)
    F, J = exact_jac(sc)
    T_exact = onp.einsum("mini->mn", J)
    D_exact = onp.einsum("mdnd->dmn", J)
    scale = 1.0 + onp.max(onp.abs(J))
    viol, probes, stats = [], {}, {}
    # ---- materialising handler (reference of the same runs: coefficient-table Jacobian)
    hm = probdiffeq.jacobian_materialize()
    st = hm.init_jacobian_handler()
    fx, dfx, _ = hm.materialize_dense(fun, x, st)
    e = max(float(onp.max(onp.abs(onp.asarray(fx) - F))), float(onp.max(onp.abs(onp.asarray(dfx) - J))) / scale)
    _, tr, _ = hm.calculate_trace_along_d(fun, x, st)
    _, dg, _ = hm.calculate_diagonal_along_d(fun, x, st)
    if onp.asarray(tr).shape != T_exact.shape or onp.asarray(dg).shape != D_exact.shape:
        viol.append({"inv": "JAC-layout", "msg": f"materialising handler returns blocks of shape {onp.asarray(tr).shape}/{onp.asarray(dg).shape}, expected {T_exact.shape}/{D_exact.shape}"})
    else:
        e = max(e, float(onp.max(onp.abs(onp.asarray(tr) - T_exact))) / scale, float(onp.max(onp.abs(onp.asarray(dg) - D_exact))) / scale)
        if e > 1e-11:
            viol.append({"inv": "JAC-exact", "msg": f"materialising handler: value / dense Jacobian / trace / diagonal blocks differ from the exact ones: {e:.2e}"})
    stats["materialize_err"] = e
    # ---- stochastic handler with the complete sign cube
    nprobe_dim = n_in if sc["mode"] == "fwd" else n_out
    C = cube(nprobe_dim, d)
    S = C.shape[0]
    cls = probdiffeq.jacobian_monte_carlo_fwd if sc["mode"] == "fwd" else probdiffeq.jacobian_monte_carlo_rev
    h = cls(seed=sc["seed"], num_probes=S)

    def rad(k, shape):
        # whatever shape the handler asks for, it gets the complete sign cube of that (n, d), repeated / cut to length
        shape = tuple(shape)
        if shape == C.shape:
            return C
        if len(shape) == 3:
            Cs = cube(shape[1], shape[2])
            reps = -(-shape[0] // Cs.shape[0])
            return onp.concatenate([Cs] * reps)[: shape[0]]
        return onp.ones(shape)

    script = randseam.Script(rademacher_fn=rad)
    with randseam.scripted(script):
        key = h.init_jacobian_handler()
        key0 = randseam.key_id(key)
        seen_states = [key0]
        for kind in sc["calls"]:
            if kind == "trace":
                fx, est, key = h.calculate_trace_along_d(fun, x, key)
                want = T_exact
            else:
                fx, est, key = h.calculate_diagonal_along_d(fun, x, key)
                want = D_exact
            est = onp.asarray(est)
            if est.shape != want.shape:
                viol.append({"inv": "JAC-layout", "msg": f"{sc['mode']} handler {kind}: block shape {est.shape}, expected {want.shape}"})
                break
            ee = float(onp.max(onp.abs(est - want))) / scale
            stats["cube_err"] = max(stats.get("cube_err", 0.0), ee)
            if ee > 1e-11:
                viol.append({"inv": "JAC-unbiased", "msg": f"{sc['mode']} handler {kind}: average over the complete sign cube ({S} probes) differs from the exact blocks: {ee:.2e}"})
                break
            if float(onp.max(onp.abs(onp.asarray(fx) - F))) > 1e-12 * (1 + onp.max(onp.abs(F))):
                viol.append({"inv": "JAC-value", "msg": f"{sc['mode']} handler {kind}: function value differs from the exact value"})
                break
            kid = randseam.key_id(key)
            if kid in seen_states:
                viol.append({"inv": "JAC-key", "msg": f"{sc['mode']} handler {kind}: returned key equals an earlier key (the key is not advanced)"})
                break
            seen_states.append(kid)
        used = [k for k, _ in script.rademacher_calls]
        if len(set(used)) != len(used) or any(k is None for k in used):
            viol.append({"inv": "JAC-key", "msg": "keys handed to the probe source over a sequence of calls are not pairwise distinct"})
        if any(k in seen_states for k in used):
            viol.append({"inv": "JAC-key", "msg": "a threaded state key was itself used to draw probes"})
    probes["cube_probes"] = S * len(sc["calls"])
    # ---- arbitrary (also odd) probe counts: the estimate must be the plain average of the documented
    #      contributions v (J v)^T of exactly the probes that were drawn, each counted once
    if not viol:
        import random

        rng = random.Random(sc["seed"])
        for s_count in (1, 3, sc.get("num_probes_extra", 5), 10):
            hx = cls(seed=sc["seed"], num_probes=s_count)
            drawn = []

            def rad2(k, shape):
                V = onp.array([rng.choice([-1.0, 1.0]) for _ in range(int(onp.prod(shape)))]).reshape(shape)
                drawn.append(V)
                return V

            with randseam.scripted(randseam.Script(rademacher_fn=rad2)):
                key = hx.init_jacobian_handler()
                _, est_t, key = hx.calculate_trace_along_d(fun, x, key)
                n_t = len(drawn)
                _, est_d, key = hx.calculate_diagonal_along_d(fun, x, key)
            for est, V, kind in ((est_t, drawn[:n_t], "trace"), (est_d, drawn[n_t:], "diag")):
                if len(V) != 1 or V[0].ndim != 3 or V[0].shape[1:] != (nprobe_dim, d):
                    viol.append({"inv": "JAC-unbiased", "msg": f"{sc['mode']} handler {kind} with num_probes={s_count}: drew probes of shapes {[v.shape for v in V]}, expected one draw of ({s_count}, {nprobe_dim}, {d})"})
                    break
                Vk = V[0]
                if sc["mode"] == "fwd":
                    Jv = onp.einsum("ndme,sme->snd", J, Vk)           # (s, n_out, d)
                    contrib_t = onp.einsum("smd,snd->snm", Vk, Jv)     # (s, n_out, n_in)
                    contrib_d = onp.einsum("smd,snd->sdnm", Vk, Jv)    # (s, d, n_out, n_in)
                else:
                    vj = onp.einsum("sme,mend->snd", Vk, J)           # (s, n_in, d)
                    contrib_t = onp.einsum("snd,smd->smn", vj, Vk)     # (s, n_out, n_in)
                    contrib_d = onp.einsum("snd,smd->sdmn", vj, Vk)    # (s, d, n_out, n_in)
                want = (contrib_t if kind == "trace" else contrib_d).mean(axis=0)
                if Vk.shape[0] != s_count:
                    want = want  # the average is over the probes actually drawn; a different count is reported below
                got = onp.asarray(est)
                ee = float(onp.max(onp.abs(got - want))) / scale if got.shape == want.shape else float("inf")
                if ee > 1e-11 or Vk.shape[0] != s_count:
                    viol.append({"inv": "JAC-unbiased", "msg": f"{sc['mode']} handler {kind} with num_probes={s_count}: estimate is not the average over the {Vk.shape[0]} probes drawn (error {ee:.2e}); a biased average cannot be exactly unbiased"})
                    break
            if viol:
                break
        probes["odd_probe_counts_checked"] = 1
    # ---- determinism with the real source: equal inputs give equal outputs
    h2 = cls(seed=sc["seed"], num_probes=7)
    k0 = h2.init_jacobian_handler()
    a = h2.calculate_trace_along_d(fun, x, k0)
    b_ = h2.calculate_trace_along_d(fun, x, k0)
    if not (onp.array_equal(onp.asarray(a[1]), onp.asarray(b_[1])) and randseam.key_id(a[2]) == randseam.key_id(b_[2])):
        viol.append({"inv": "JAC-key", "msg": "equal inputs (same key) give different outputs"})
    # ---- F9: corrupted fun / x must raise
    bad = sc["corrupt"]
    fun_bad, x_bad = fun, x
    if bad == "x_rank1":
        x_bad = x.reshape(-1)
    elif bad == "x_rank3":
        x_bad = x[None]
    elif bad == "x_list":
        x_bad = [x]
    elif bad == "out_trailing":
        fun_bad = lambda s: jnp.concatenate([fun(s), fun(s)], axis=1)  # noqa: E731
    elif bad == "out_list":
        fun_bad = lambda s: [fun(s)]  # noqa: E731
    elif bad == "out_rank1":
        fun_bad = lambda s: fun(s).reshape(-1)  # noqa: E731
    for hh, name in ((hm, "materialize"), (h2, sc["mode"])):
        for meth in ("materialize_dense", "calculate_trace_along_d", "calculate_diagonal_along_d"):
            try:
                out = getattr(hh, meth)(fun_bad, x_bad, hh.init_jacobian_handler())
                viol.append({"inv": "JAC-reject", "msg": f"{name}.{meth} accepted a corrupted call ({bad}) and returned numbers"})
            except Exception:  # noqa: BLE001
                probes["corruptions_rejected"] = probes.get("corruptions_rejected", 0) + 1
    return {
        "violations": viol[:8],
        "stats": {"calls": len(sc["calls"]) + 5, "probes_enumerated": S * len(sc["calls"])},
        "probes": probes,
        "faults": {"F7_full_sign_cube": len(sc["calls"]), "F9_corrupted_shape_" + bad: 6},
        "worst": stats,
        "abstract": f"{sc['mode']}:{n_in}x{n_out}x{d}:" + "".join(c[0] for c in sc["calls"]),
        "abstract_key": digest_of([sc["terms"], sc["x"], sc["mode"], sc["calls"]]),
        "nontrivial": n_in * n_out * d > 1,
        "cell": f"{sc['mode']}|nin{n_in}|nout{n_out}|d{d}|{'square' if n_in == n_out else 'nonsquare'}",
        "mode": "eager",
        "digest": digest_of([stats, sc["calls"]]),
        "sample": {"shape": [n_in, n_out, d], "mode": sc["mode"], "calls": sc["calls"], "x": sc["x"], "corrupt": bad},
    }


def shrink_candidates(sc):
    if len(sc["calls"]) > 1:
        for i in range(len(sc["calls"])):
            c = copy.deepcopy(sc)
            del c["calls"][i]
            yield c
    for m in range(sc["n_out"]):
        for i in range(sc["d"]):
            if len(sc["terms"][m][i]) > 1:
                c = copy.deepcopy(sc)
                c["terms"][m][i] = c["terms"][m][i][:1]
                yield c
