"""C18 -- initial step-size proposals are positive, finite and follow the heuristics (weak claim).

Generated: degenerate and badly scaled initial states, vector fields with zero / non-zero f(u0),
tolerances, rates, pytree states.  Checks: both helpers return a finite, strictly positive number;
dt0_adaptive equals an independent Hairer-Norsett-Wanner II.4 implementation; bounded liveness: an
adaptive solve started from the proposal finishes within the attempt budget with finite output
(the only clause that is simulation in the proper sense).
"""

import copy
import math

import jax.numpy as jnp
import mpmath as mp
import numpy as onp
from probdiffeq import ivpsolve, probdiffeq

from sim import configs, flowseam, scen
from sim.history import Recorder, digest_of
from sim.refmodel import Poly

PROPERTY = "C18"
RUN_TIMEOUT_S = 600
ATTEMPT_BUDGET = 400


def gen(src, tier):
    d = src.randint("d", 1, 3)
    regime = src.weighted("regime", [("generic", 3), ("zero_u0", 2), ("tiny_u0", 1), ("huge_u0", 1), ("mixed_scale", 2),
                                     ("zero_f0", 2), ("zero_both", 1)])
    u0 = [src.rounded("u0", 0.2, 2.0) * src.choice("sgn", [1, -1]) for _ in range(d)]
    if regime == "zero_u0":
        u0 = [0.0] * d
    elif regime == "tiny_u0":
        u0 = [x * 1e-300 for x in u0]
    elif regime == "huge_u0":
        u0 = [x * src.choice("huge", [1e6, 1e12, 1e100, 1e300]) for x in u0]
    elif regime == "mixed_scale":
        u0 = [x * 10.0 ** src.randint("e", -8, 8) for x in u0]
    # polynomial field f_i = a_i (u_i - c_i) + b_i t  (+ coupling); zero_f0 puts u0 on the equilibrium
    terms = []
    for i in range(d):
        a = src.rounded("a", -1.5, -0.2)
        c = u0[i] if regime in ("zero_f0", "zero_both") else src.rounded("c", -1.0, 1.0)
        es = [0] * d
        es[i] = 1
        ts = [[a, es, 0], [-a * c, [0] * d, 0]]
        if regime not in ("zero_f0", "zero_both") and d > 1 and src.flip("couple", 0.5):
            es2 = [0] * d
            es2[(i + 1) % d] = 1
            ts.append([src.rounded("k", -0.5, 0.5), es2, 0])
        if src.flip("forced", 0.4):
            ts.append([src.rounded("b", -0.5, 0.5), [0] * d, 1])
        terms.append(ts)
    if regime == "zero_both":
        u0 = [0.0] * d
        terms = [[[src.rounded("a2", -1.5, -0.2), [1 if j == i else 0 for j in range(d)], 0]] for i in range(d)]
    return {"d": d, "regime": regime, "u0": u0, "terms": terms, "atol": 10 ** src.uniform("atol", -12, 0),
            "rtol": 10 ** src.uniform("rtol", -12, 0), "rate": src.randint("rate", 1, 12),
            "tree": src.choice("tree", ["array", "dict", "tuple"]), "q": src.randint("q", 1, 4),
            "ssm": src.choice("ssm", configs.SSMS), "calib": src.choice("calib", ["none", "mle"]), "t0": src.choice("t0", [0.0, 0.5])}


def hnw(f, y0, t0, atol, rtol, rate, norm, fabs=None):
    """Hairer-Norsett-Wanner II.4 in mp; `norm` = 'rms' (the book) or 'euclid' (the implementation the code cites)."""
    n = len(y0)
    y0 = [mp.mpf(v) for v in y0]
    sc = [mp.mpf(atol) + abs(y) * mp.mpf(rtol) for y in y0]

    def nrm(v):
        s = mp.sqrt(sum((a / b_) ** 2 for a, b_ in zip(v, sc)))
        return s / mp.sqrt(n) if norm == "rms" else s

    f0 = f(y0, mp.mpf(t0))
    d0, d1 = nrm(y0), nrm(f0)
    h0 = mp.mpf("1e-6") if (d0 < mp.mpf("1e-5") or d1 < mp.mpf("1e-5")) else mp.mpf("0.01") * d0 / d1
    y1 = [a + h0 * b_ for a, b_ in zip(y0, f0)]
    f1 = f(y1, mp.mpf(t0) + h0)
    d2 = nrm([a - b_ for a, b_ in zip(f1, f0)]) / h0
    if max(d1, d2) <= mp.mpf("1e-15"):
        h1 = max(mp.mpf("1e-6"), h0 * mp.mpf("1e-3"))
    else:
        h1 = (mp.mpf("0.01") / max(d1, d2)) ** (1 / (mp.mpf(rate) + 1))
    # margin rule: the heuristic branches on thresholds; quantities that sit at rounding level (a residual that
    # is zero up to the rounding of the coefficient table) or near a threshold make the branch undecidable
    tiny = lambda v: 0 < v < mp.mpf("1e-9")  # noqa: E731
    near = lambda v, th: th / 10 < v < th * 10  # noqa: E731
    borderline = tiny(d1) or tiny(d2) or near(d0, mp.mpf("1e-5")) or near(d1, mp.mpf("1e-5")) or tiny(d0)
    if fabs is not None:
        # values that are zero up to the rounding of the float evaluation of the coefficient table
        B0 = fabs([abs(v) for v in y0], abs(mp.mpf(t0)))
        B1 = fabs([abs(v) for v in y1], abs(mp.mpf(t0) + h0))
        for a, b_, c0, c1 in zip(f0, f1, B0, B1):
            if 0 < abs(a) < mp.mpf("1e-10") * c0 or 0 < abs(b_ - a) < mp.mpf("1e-10") * max(c0, c1):
                borderline = True
    return float(min(100 * h0, h1)), bool(borderline)


def wrap_tree(kind, arr):
    if kind == "dict":
        return {"a": arr[:1], "b": arr[1:]} if arr.shape[0] > 1 else {"a": arr}
    if kind == "tuple":
        return (arr[:1], arr[1:]) if arr.shape[0] > 1 else (arr,)
    return arr


def execute(sc):
    import jax
    import jax.flatten_util

    d = sc["d"]
    poly = Poly(d, 1, sc["terms"])
    u0 = jnp.asarray(sc["u0"], dtype=float)
    tree0 = wrap_tree(sc["tree"], u0)
    _, unravel = jax.flatten_util.ravel_pytree(tree0)

    def f(y, *, t):
        flat, _ = jax.flatten_util.ravel_pytree(y)
        return unravel(poly.eval_jnp([flat[i] for i in range(d)], t))

    vf = probdiffeq.ode(f, jacobian=probdiffeq.jacobian_materialize())
    viol, probes, stats = [], {}, {}
    t0 = sc["t0"]
    a = float(ivpsolve.dt0(vf, (tree0,), t=t0))
    b_ = float(ivpsolve.dt0_adaptive(vf, (tree0,), t0, error_contraction_rate=sc["rate"], rtol=sc["rtol"], atol=sc["atol"]))
    stats["dt0"], stats["dt0_adaptive"] = a, b_
    overflow = sc["regime"] == "huge_u0" and max(abs(x) for x in sc["u0"]) >= 1e50
    for name, v in (("dt0", a), ("dt0_adaptive", b_)):
        if not (math.isfinite(v) and v > 0.0):
            vv = {"inv": "DT0-positive", "msg": f"{name} returned {v!r} for u0={sc['u0']} ({sc['regime']})"}
            if overflow:
                vv["finding"] = "KF-C18-overflow-scale"
                vv["inv"] = "DT0-positive-overflow"
            viol.append(vv)
    # ---- independent HNW II.4
    def fm(y, t):
        return list(poly.eval_mp(list(y), t))

    poly_abs = Poly(d, 1, [[[abs(c_), es, et] for c_, es, et in ts] for ts in sc["terms"]])

    def fabs(y, t):
        return list(poly_abs.eval_mp(list(y), t))

    if not overflow and math.isfinite(b_):
        res = [hnw(fm, sc["u0"], t0, sc["atol"], sc["rtol"], sc["rate"], n_, fabs=fabs) for n_ in ("euclid", "rms")]
        want = [r_[0] for r_ in res]
        borderline = any(r_[1] for r_ in res)
        rel = min(abs(b_ - w) / abs(w) for w in want)
        stats["hnw_rel"] = rel
        if borderline:
            probes["hnw_borderline_skipped"] = 1
        elif rel > 1e-8:
            viol.append({"inv": "DT0-hnw", "msg": f"dt0_adaptive={b_!r} differs from the Hairer-Norsett-Wanner II.4 starting step ({want[0]!r} with the Euclidean norm, {want[1]!r} with the RMS norm) for u0={sc['u0']}, atol={sc['atol']:.2e}, rtol={sc['rtol']:.2e}, rate={sc['rate']}"})
        probes["hnw_compared"] = 1
    # ---- bounded liveness: an adaptive solve started from either proposal starts and finishes
    if not overflow:
        scale = max(1.0, max(abs(x) for x in sc["u0"]))
        tol = 1e-3
        for name, dt in (("dt0", a), ("dt0_adaptive", b_)):
            if not (math.isfinite(dt) and dt > 0.0):
                continue
            ssm = getattr(probdiffeq, "state_space_model_" + sc["ssm"])()
            tc, _ = probdiffeq.jetexpand_ode_unroll(num=sc["q"])(vf, (tree0,), t=t0)
            prior = ssm.prior_wiener_integrated(tc)
            c = ssm.constraint_ode_ts0(vf)
            solver = (probdiffeq.solver if sc["calib"] == "none" else probdiffeq.solver_mle)(strategy=probdiffeq.strategy_filter(), constraint=c)
            err = probdiffeq.error_residual_std(constraint=c)
            count = {"n": 0}

            class Counting:
                def init_error(self):
                    return err.init_error()

                def estimate_error_norm(self, *a_, **k):
                    count["n"] += 1
                    if count["n"] > ATTEMPT_BUDGET:
                        raise flowseam.StepBudgetExceeded("attempt budget")
                    return err.estimate_error_norm(*a_, **k)

            try:
                with flowseam.stepped(budget=10 * ATTEMPT_BUDGET):
                    sol = ivpsolve.solve_adaptive_terminal_values(solver=solver, error=Counting(), while_loop=flowseam.py_while)(
                        prior, t0=t0, t1=t0 + 0.2, atol=tol * scale, rtol=tol, dt0=dt)
                leaves = [onp.asarray(x) for x in jax.tree_util.tree_leaves(sol.u.mean[0])]
                if not all(onp.all(onp.isfinite(x)) for x in leaves):
                    viol.append({"inv": "DT0-liveness", "msg": f"adaptive solve started from {name}={dt!r} returns non-finite values ({sc['regime']})"})
            except flowseam.StepBudgetExceeded:
                viol.append({"inv": "DT0-liveness", "msg": f"adaptive solve started from {name}={dt!r} did not finish within {ATTEMPT_BUDGET} attempts ({sc['regime']}, u0={sc['u0']})"})
            stats["attempts_" + name] = count["n"]
        probes["liveness_checked"] = 1
    return {
        "violations": viol[:6],
        "stats": {"attempts": stats.get("attempts_dt0", 0) + stats.get("attempts_dt0_adaptive", 0), "sim_time": 0.4},
        "probes": probes,
        "faults": {"degenerate_initial_state_" + sc["regime"]: 1},
        "worst": stats,
        "abstract": sc["regime"] + ":" + sc["tree"],
        "abstract_key": digest_of([sc["u0"], sc["terms"], sc["atol"], sc["rtol"], sc["rate"]]),
        "nontrivial": True,
        "cell": f"{sc['regime']}|d{d}|{sc['tree']}|{sc['ssm']}|{sc['calib']}",
        "mode": "stepped",
        "digest": digest_of(stats),
        "sample": {"regime": sc["regime"], "u0": sc["u0"], "atol": sc["atol"], "rtol": sc["rtol"], "rate": sc["rate"], "dt0": a, "dt0_adaptive": b_},
    }


def shrink_candidates(sc):
    if sc["tree"] != "array":
        c = copy.deepcopy(sc)
        c["tree"] = "array"
        yield c
    if sc["d"] > 1:
        c = copy.deepcopy(sc)
        c["d"] = 1
        c["u0"] = sc["u0"][:1]
        c["terms"] = [[[t[0], t[1][:1], t[2]] for t in sc["terms"][0] if sum(t[1][1:]) == 0]]
        yield c
