"""C19 -- constrained least-squares points are feasible, optimal, exact if affine.

The Gauss-Newton routine runs on the loop seam (`while_loop=` argument), so the simulator observes
every iteration; faults: iteration budgets 1..50 with unreachable tolerances (F8), singular weight
factors.  Oracles over the iteration history and against the Gaussian conditional mean.
"""

import copy

import jax
import jax.numpy as jnp
import numpy as onp
from probdiffeq import probdiffeq
from probdiffeq._probdiffeq import ssm_impl_dense

from sim.history import digest_of

PROPERTY = "C19"
RUN_TIMEOUT_S = 300


def gen(src, tier):
    D = src.randint("D", 2, 10)
    m = src.randint("m", 1, D - 1)
    kind = src.weighted("kind", [("affine", 2), ("nonlinear", 2)])
    G = [[src.rounded("g", -1.0, 1.0) for _ in range(D)] for _ in range(m)]
    c = [src.rounded("c", -1.0, 1.0) for _ in range(m)]
    quad = []
    if kind == "nonlinear":
        for i in range(m):
            quad.append([[src.randint("a", 0, D - 1), src.randint("b", 0, D - 1), src.rounded("q", -0.15, 0.15)]
                         for _ in range(src.randint("nq", 1, 2))])
    mean = [src.rounded("mean", -1.0, 1.0) for _ in range(D)]
    origin = src.weighted("origin", [("no", 4), ("zero", 1), ("tiny", 1)])
    if origin == "zero":  # e.g. an IVP started at rest: mean and start point at the origin, constraint not satisfied there
        mean = [0.0] * D
    elif origin == "tiny":
        mean = [x * 1e-13 for x in mean]
    L = [[(src.rounded("l", -1.0, 1.0) if j <= i else 0.0) for j in range(D)] for i in range(D)]
    for i in range(D):
        L[i][i] = abs(L[i][i]) + 0.2
    singular = src.weighted("singular", [("no", 3), ("zero_cols", 1), ("low_rank", 1)])
    if singular == "zero_cols":
        for j in src.sample("cols", range(D), src.randint("nz", 1, max(1, D - m))):
            for i in range(D):
                L[i][j] = 0.0
    elif singular == "low_rank":
        r = src.randint("rank", max(m, 1), D - 1) if D - 1 >= max(m, 1) else D
        for j in range(r, D):
            for i in range(D):
                L[i][j] = 0.0
    budget = src.weighted("budget", [("normal", 3), ("exhaust", 2)])
    tol = 10 ** src.uniform("tol", -12, -4)
    maxiter = src.randint("maxiter", 1, 50)
    if budget == "exhaust":
        tol = src.choice("tol0", [0.0, 1e-300])
        maxiter = src.randint("maxiter_small", 1, 12)
    return {"D": D, "m": m, "kind": kind, "G": G, "c": c, "quad": quad, "mean": mean, "L": L, "singular": singular,
            "tol": tol, "maxiter": maxiter, "budget": budget, "origin": origin,
            "x0": "mean" if origin != "no" else src.choice("x0", ["mean", "random"]),
            "x0v": [src.rounded("x0", -1.0, 1.0) for _ in range(D)]}


def make_constraint(sc):
    G = jnp.asarray(sc["G"], dtype=float)
    c = jnp.asarray(sc["c"], dtype=float)
    quad = sc["quad"]

    def g(x):
        out = G @ x - c
        if quad:
            extra = []
            for i in range(len(sc["G"])):
                s = 0.0
                for a, b_, q in quad[i]:
                    s = s + q * x[a] * x[b_]
                extra.append(s)
            out = out + jnp.stack([jnp.asarray(e, dtype=float) * 1.0 for e in extra])
        return out

    return g


def execute(sc):
    D, m = sc["D"], sc["m"]
    g = make_constraint(sc)
    mean = jnp.asarray(sc["mean"], dtype=float)
    L = jnp.asarray(sc["L"], dtype=float)
    x0 = mean if sc["x0"] == "mean" else jnp.asarray(sc["x0v"], dtype=float)
    seen = []

    def loop(cond_fun, body_fun, init):
        s = init
        seen.append(s)
        n = 0
        while bool(cond_fun(s)):
            n += 1
            if n > 1000:
                raise RuntimeError("loop budget")
            s = body_fun(s)
            seen.append(s)
        return s

    solver = probdiffeq.lstsq_constrained_gauss_newton(maxiter=sc["maxiter"], tol=sc["tol"], while_loop=loop)
    x, stats = solver(g, x0, mean, L)
    x = onp.asarray(x, dtype=float)
    viol, probes = [], {}
    observed = len(seen) - 1
    it = int(stats["iters"])
    tol, maxiter = sc["tol"], sc["maxiter"]
    Gm = onp.asarray(sc["G"], dtype=float)
    # ---- reported statistics are truthful
    if it != observed:
        viol.append({"inv": "GN-stats", "msg": f"reported iters={it} but the loop body ran {observed} times"})
    gx = onp.asarray(g(jnp.asarray(x)), dtype=float)
    fc = onp.asarray(stats["final_constraint"], dtype=float)
    if onp.max(onp.abs(gx - fc)) > 1e-12 * (1 + onp.max(onp.abs(gx))):
        viol.append({"inv": "GN-stats", "msg": f"reported final_constraint differs from the constraint at the returned point by {onp.max(onp.abs(gx - fc)):.2e}"})
    if observed >= 1:
        dx_true = onp.asarray(seen[-1].x, dtype=float) - onp.asarray(seen[-2].x, dtype=float)
        fi = onp.asarray(stats["final_increment"], dtype=float)
        if onp.max(onp.abs(dx_true - fi)) > 1e-12 * (1 + onp.max(onp.abs(dx_true))):
            viol.append({"inv": "GN-stats", "msg": "reported final_increment is not the last increment"})
    if not onp.all(onp.isfinite(x)):
        viol.append({"inv": "GN-finite", "msg": "returned point is not finite"})
    # ---- termination: feasible to tolerance, or increment below tolerance, or budget exhausted (and says so)
    feas = onp.linalg.norm(gx) <= tol * onp.sqrt(m)
    last_dx = onp.asarray(stats["final_increment"], dtype=float)
    conv = onp.linalg.norm(last_dx) <= tol * onp.sqrt(D)
    if not (feas or conv or it == maxiter):
        viol.append({"inv": "GN-termination", "msg": f"stopped after {it} < maxiter={maxiter} iterations although neither feasible (|g|={onp.linalg.norm(gx):.2e}) nor converged (|dx|={onp.linalg.norm(last_dx):.2e}) at tol={tol:.1e}"})
    if it > maxiter:
        viol.append({"inv": "GN-termination", "msg": f"ran {it} iterations with maxiter={maxiter}"})
    if sc["budget"] == "exhaust" and sc["kind"] == "nonlinear" and it == maxiter:
        probes["budget_exhausted"] = 1
    # an iteration that was needed must not be skipped: before the last iteration all three continue-conditions held
    for k, s in enumerate(seen[:-1]):
        fk = onp.asarray(s.fx, dtype=float)
        dk = onp.asarray(s.dx, dtype=float)
        if not (onp.linalg.norm(fk) > tol * onp.sqrt(m) and int(s.i) < maxiter and onp.linalg.norm(dk) > tol * onp.sqrt(D)):
            viol.append({"inv": "GN-termination", "msg": f"iteration {k} was run although a stopping condition already held"})
            break
    # ---- first-order optimality: x - m in range(C J^T), J at the last linearisation point (exact) and at x (up to the last increment)
    C = onp.asarray(L, dtype=float) @ onp.asarray(L, dtype=float).T
    if observed >= 1 and onp.all(onp.isfinite(x)):
        xprev = seen[-2].x
        Jp = onp.asarray(jax.jacfwd(g)(xprev), dtype=float)
        M = C @ Jp.T
        disp = x - onp.asarray(mean, dtype=float)
        coef, *_ = onp.linalg.lstsq(M, disp, rcond=None)
        res = onp.linalg.norm(M @ coef - disp) / (onp.linalg.norm(disp) + 1e-300)
        if onp.linalg.norm(disp) > 1e-12 and res > 1e-7:
            viol.append({"inv": "GN-optimality", "msg": f"displacement from the mean is not in range(C J^T): relative residual {res:.2e}"})
        probes["optimality_checked"] = 1
    # ---- affine: Gaussian conditional mean after one iteration
    if sc["kind"] == "affine":
        cm = onp.asarray(sc["c"], dtype=float)
        mu = onp.asarray(mean, dtype=float)
        S = Gm @ C @ Gm.T
        want = mu - C @ Gm.T @ onp.linalg.pinv(S, rcond=1e-13) @ (Gm @ mu - cm)
        reachable = onp.linalg.norm(Gm @ want - cm) <= 1e-9 * (1 + onp.linalg.norm(cm))
        if observed >= 1 and reachable:
            x1 = onp.asarray(seen[1].x, dtype=float)
            e = onp.linalg.norm(x1 - want) / (1 + onp.linalg.norm(want))
            if e > 1e-8:
                viol.append({"inv": "GN-affine", "msg": f"affine constraint: first iterate differs from the Gaussian conditional mean by {e:.2e} (singular={sc['singular']})"})
            if tol >= 1e-12 and it > 1 and sc["budget"] != "exhaust":
                viol.append({"inv": "GN-affine", "msg": f"affine constraint needed {it} iterations at tol={tol:.1e}"})
            probes["affine_conditional_mean_checked"] = 1
        # as Taylor point of a filter update: the MAP point of a Gaussian under an affine constraint
        if reachable and sc["x0"] == "mean":
            tf = ssm_impl_dense.DenseTreeFlatten.from_example([mean])
            rv = ssm_impl_dense.DenseNormal(mean, L, tf)
            tp = probdiffeq.taylor_point_maximum_a_posteriori(nlstsq=probdiffeq.lstsq_constrained_gauss_newton(maxiter=10, tol=1e-10))
            pt = onp.asarray(tp(lambda s, t: g(s), rv, t=0.0), dtype=float)
            e = onp.linalg.norm(pt - want) / (1 + onp.linalg.norm(want))
            if e > 1e-8:
                viol.append({"inv": "GN-taylorpoint", "msg": f"taylor_point_maximum_a_posteriori differs from the conditional mean for an affine constraint: {e:.2e}"})
            probes["taylor_point_checked"] = 1
    probes["singular_weight"] = int(sc["singular"] != "no")
    probes["mean_at_origin"] = int(sc.get("origin", "no") != "no")
    return {
        "violations": viol[:6],
        "stats": {"iterations": observed},
        "probes": probes,
        "faults": {"F8_budget_exhaustion_configured": int(sc["budget"] == "exhaust"), "F8_singular_weight": int(sc["singular"] != "no")},
        "abstract": f"{sc['kind']}:{D}x{m}:it{observed}",
        "abstract_key": digest_of([sc["G"], sc["mean"], sc["tol"], sc["maxiter"]]),
        "nontrivial": observed >= 1,
        "cell": f"{sc['kind']}|D{D}|m{m}|{sc['singular']}|{sc['budget']}|x0{sc['x0']}|origin{sc.get('origin', 'no')}",
        "mode": "loop-seam",
        "digest": digest_of([observed, [float(v) for v in x]]),
        "sample": {"D": D, "m": m, "kind": sc["kind"], "tol": tol, "maxiter": maxiter, "iters": observed, "singular": sc["singular"]},
    }


def shrink_candidates(sc):
    if sc["quad"]:
        c = copy.deepcopy(sc)
        c["quad"] = []
        c["kind"] = "affine"
        yield c
    if sc["singular"] != "no":
        pass
    if sc["x0"] != "mean":
        c = copy.deepcopy(sc)
        c["x0"] = "mean"
        yield c
