"""C20 -- malformed inputs are rejected loudly instead of being broadcast silently.

Fault enumeration (F9): a table of valid call recipes for the public constructors / entry points
named in the property x the three factorisations; exactly one field of an otherwise valid call is
corrupted (wrong rank, length, tree structure, dtype, object type, inadmissible value).  Oracle:
an exception at construction or first use -- never numbers; documented unsuitable pairings warn
and name the remedy.  Every recipe also has a control entry (the uncorrupted call must work).
Both tiers enumerate the table completely (313 entries).
"""

import warnings

import jax
import jax.numpy as jnp
import jax.tree_util as tu
import numpy as onp
from probdiffeq import ivpsolve, probdiffeq
from probdiffeq.util import test_util

from sim.history import digest_of

PROPERTY = "C20"
RUN_TIMEOUT_S = 300
LIBRARY_EXCEPTION_IS_VIOLATION = False

D = 3
Q = 2


def _f(y, *, t):
    return -y * (1.0 + 0.1 * y)


def _base(d=D):
    vf = probdiffeq.ode(_f, jacobian=probdiffeq.jacobian_materialize())
    u0 = jnp.asarray([0.5, 0.8, 0.1][:d])
    tc, _ = probdiffeq.jetexpand_ode_unroll(num=Q)(vf, (u0,), t=0.0)
    return vf, u0, tc


def _ssm(name):
    return getattr(probdiffeq, "state_space_model_" + name)()


def _use_prior(ssm, prior, vf):
    """First use of a prior: one transition, one solver step, one fixed-grid solve."""
    proto = prior.init.prototype_output_scale_calibrated()
    prior.transition(dt=0.1, output_scale=jnp.ones_like(proto))
    c = ssm.constraint_ode_ts0(vf)
    solver = probdiffeq.solver(strategy=probdiffeq.strategy_filter(), constraint=c)
    sol = ivpsolve.solve_fixed_grid(solver=solver)(prior, grid=jnp.asarray([0.0, 0.1, 0.2]))
    return sol.u.mean[0]


def _good_std(name, tc):
    """Documented container of initial standard deviations: scalar leaves for the isotropic model."""
    if name == "isotropic":
        return [jnp.asarray(0.01) for _ in tc]
    return tu.tree_map(lambda s: 0.01 * jnp.ones_like(s), tc)


def _good_scale(name):
    return jnp.asarray(2.0) if name == "isotropic" else 2.0 * jnp.ones(D)


def _scale_corruptions(name):
    good = _good_scale(name)
    out = {"rank+1": good[..., None], "list": [2.0] * D, "string": "2.0", "matrix": 2.0 * jnp.ones((D, D)),
           "len+1": 2.0 * jnp.ones(D + 1), "len-1": 2.0 * jnp.ones(D - 1), "(1,)": 2.0 * jnp.ones(1), "(d,1)": 2.0 * jnp.ones((D, 1)),
           "(1,d)": 2.0 * jnp.ones((1, D)), "dict": {"a": 2.0}, "tuple_of_arrays": (good, good)}
    if name == "isotropic":
        out["(d,)"] = 2.0 * jnp.ones(D)
    else:
        out["scalar"] = jnp.asarray(2.0)
    return out


def entries():
    E = []

    def add(id_, kind, fn, ssm="-"):
        E.append({"id": id_, "kind": kind, "fn": fn, "ssm": ssm})

    for name in ("dense", "isotropic", "blockdiag"):
        # ---------------- priors: output scale
        def mk_prior(scale, name=name, ctor="prior_wiener_integrated"):
            def run():
                vf, u0, tc = _base()
                ssm = _ssm(name)
                if ctor == "prior_wiener_integrated":
                    prior = ssm.prior_wiener_integrated(tc, output_scale=scale)
                else:
                    std = _good_std(name, tc)
                    prior = ssm.prior_wiener_integrated_diffuse(tc, std, output_scale=scale)
                return _use_prior(ssm, prior, vf)
            return run

        for ctor in ("prior_wiener_integrated", "prior_wiener_integrated_diffuse"):
            add(f"{name}/{ctor}/output_scale/control", "control", mk_prior(_good_scale(name), ctor=ctor), name)
            add(f"{name}/{ctor}/output_scale/none-control", "control", mk_prior(None, ctor=ctor), name)
            for lab, bad in _scale_corruptions(name).items():
                add(f"{name}/{ctor}/output_scale/{lab}", "raise", mk_prior(bad, ctor=ctor), name)

        # ---------------- priors: exactness flags
        def mk_exact(flag, name=name):
            def run():
                vf, u0, tc = _base()
                ssm = _ssm(name)
                prior = ssm.prior_wiener_integrated(tc, is_exact=flag)
                return _use_prior(ssm, prior, vf)
            return run

        n = Q + 1
        add(f"{name}/is_exact/control-bool", "control", mk_exact(False), name)
        leaf = (lambda: jnp.asarray(True)) if name == "isotropic" else (lambda: jnp.ones(D, dtype=bool))
        add(f"{name}/is_exact/control-list", "control", mk_exact([leaf()] * n), name)
        fl = (lambda: jnp.asarray(1.0)) if name == "isotropic" else (lambda: jnp.ones(D))
        il = (lambda: jnp.asarray(1)) if name == "isotropic" else (lambda: jnp.ones(D, dtype=int))
        bad_flags = {"int": 1, "float": 0.0, "string": "yes", "list_float": [fl()] * n, "list_int": [il()] * n,
                     "list_len-1": [leaf()] * (n - 1), "list_len+1": [leaf()] * (n + 1),
                     "leaf_len+1": [jnp.ones(D + 1, dtype=bool)] * n, "leaf_len-1": [jnp.ones(D - 1, dtype=bool)] * n,
                     "leaf_rank+1": [jnp.ones((D, 1), dtype=bool)] * n, "dict": {"a": True}, "array": jnp.ones((n, D), dtype=bool),
                     "python_float_list": [1.0] * n, "none": None}
        for lab, bad in bad_flags.items():
            add(f"{name}/is_exact/{lab}", "raise", mk_exact(bad), name)

        # ---------------- Taylor-coefficient containers
        def mk_tc(transform, name=name, diffuse=False):
            def run():
                vf, u0, tc = _base()
                ssm = _ssm(name)
                bad = None if diffuse else transform(tc)
                if diffuse:
                    prior = ssm.prior_wiener_integrated_diffuse(tc, transform(_good_std(name, tc), tc))
                else:
                    prior = ssm.prior_wiener_integrated(bad)
                return _use_prior(ssm, prior, vf)
            return run

        add(f"{name}/tcoeffs/control", "control", mk_tc(lambda tc: tc), name)
        tcs = {"stacked_array": lambda tc: jnp.stack(tc), "ragged_len-1": lambda tc: [tc[0], tc[1][:-1], tc[2]],
               "ragged_rank+1": lambda tc: [tc[0], tc[1][None], tc[2]], "mixed_tree": lambda tc: [tc[0], {"a": tc[1]}, tc[2]],
               "scalar": lambda tc: 1.0, "none": lambda tc: None}
        for lab, tr in tcs.items():
            add(f"{name}/tcoeffs/{lab}", "raise", mk_tc(tr), name)
        std_bad = {"stacked_array": lambda st, tc: jnp.stack(st), "mixed_tree": lambda st, tc: [st[0], {"a": st[1]}, st[2]],
                   "shorter_list": lambda st, tc: st[:-1], "leaf_rank+1": lambda st, tc: [st[0], st[1][..., None], st[2]]}
        if name == "isotropic":
            # (d,)-shaped leaves where scalars are documented
            std_bad["array_leaves"] = lambda st, tc: tu.tree_map(lambda s_: 0.01 * jnp.ones_like(s_), tc)
        else:
            std_bad["ragged_len-1"] = lambda st, tc: [st[0], st[1][:-1], st[2]]
        for lab, tr in std_bad.items():
            add(f"{name}/tcoeffs_std/{lab}", "raise", mk_tc(tr, diffuse=True), name)
        if name == "isotropic":
            # non-scalar std leaves, decided at every first use that consumes the std container (reading the initial
            # law, extrapolating it, solving); state dimension equal to and different from the number of coefficients
            def mk_std_use(shape_fn, use, d, name=name):
                def run():
                    vf, u0, tc = _base(d)
                    ssm = _ssm(name)
                    std = [0.01 * jnp.ones(shape_fn(d)) for _ in tc] if shape_fn is not None else _good_std(name, tc)
                    prior = ssm.prior_wiener_integrated_diffuse(tc, std)
                    if use == "init_std":
                        return prior.init.std
                    if use == "init_cov":
                        return prior.init.to_multivariate_normal()[1]
                    if use == "extrapolate":
                        proto = prior.init.prototype_output_scale_calibrated()
                        rv = prior.transition(dt=0.1, output_scale=jnp.ones_like(proto)).marginalise(prior.init)
                        return rv.mean, rv.std
                    return _use_prior(ssm, prior, vf)
                return run

            for use in ("init_std", "init_cov", "extrapolate", "solve"):
                add(f"{name}/tcoeffs_std/{use}/control", "control", mk_std_use(None, use, D), name)
                for d_ in (2, D):
                    for slab, sfn in {"(d,)": lambda d: (d,), "(1,)": lambda d: (1,), "(d,1)": lambda d: (d, 1)}.items():
                        add(f"{name}/tcoeffs_std/{use}/leaf_{slab}_d{d_}", "raise", mk_std_use(sfn, use, d_), name)

        # ---------------- transition(): calibrated output scale
        def mk_trans(scale_fn, name=name):
            def run():
                vf, u0, tc = _base()
                prior = _ssm(name).prior_wiener_integrated(tc)
                proto = prior.init.prototype_output_scale_calibrated()
                t = prior.transition(dt=0.1, output_scale=scale_fn(proto))
                return t.noise.cholesky_flat
            return run

        add(f"{name}/transition/control", "control", mk_trans(lambda p: jnp.ones_like(p)), name)
        for lab, fn in {"rank+1": lambda p: jnp.ones(p.shape + (1,)), "len+1": lambda p: jnp.ones((p.shape[0] + 1,) if p.ndim else (2,)),
                        "matrix": lambda p: jnp.ones((D, D)), "(1,)": lambda p: jnp.ones((1,)) if p.shape != (1,) else jnp.ones((2,))}.items():
            add(f"{name}/transition/output_scale/{lab}", "raise", mk_trans(fn), name)
        if name == "blockdiag":
            add(f"{name}/transition/output_scale/scalar", "raise", mk_trans(lambda p: jnp.ones(())), name)

        # ---------------- plain functions where an ODE / residual description is required
        def mk_plain(which, name=name):
            def run():
                ssm = _ssm(name)
                if which == "ts0":
                    return ssm.constraint_ode_ts0(_f)
                if which == "ts1":
                    return ssm.constraint_ode_ts1(_f)
                if which == "residual":
                    return ssm.constraint_residual(_f)
                if which == "residual_given_ode":
                    vf, _, _ = _base()
                    return ssm.constraint_residual(vf)
                vf, _, _ = _base()
                res = probdiffeq.residual_from_ode(vf)
                return ssm.constraint_ode_ts0(res)
            return run

        for which in ("ts0", "ts1", "residual", "residual_given_ode", "ts0_given_residual"):
            add(f"{name}/constraint/{which}/plain_or_wrong_type", "raise", mk_plain(which), name)

        # ---------------- losses: std container, posterior type
        def mk_loss(std_fn, name=name, terminal=False, post="posterior"):
            def run():
                vf, u0, tc = _base()
                ssm = _ssm(name)
                prior = ssm.prior_wiener_integrated(tc)
                c = ssm.constraint_ode_ts0(vf)
                sm = probdiffeq.solver(strategy=probdiffeq.strategy_smoother_fixedpoint(), constraint=c)
                sol = ivpsolve.solve_adaptive_save_at(solver=sm, error=probdiffeq.error_residual_std(constraint=c))(
                    prior, save_at=jnp.asarray([0.0, 0.2, 0.4, 0.6]), atol=1e-3, rtol=1e-3)
                data = sol.u.mean[0]
                good = sol.solution_full.posterior.marginal.std[0]
                if terminal:
                    term = tu.tree_map(lambda s: s[-1], sol.u)
                    return probdiffeq.loss_lml_terminal_values()(data[-1], marginals=term, std=std_fn(0.1 * jnp.ones_like(good), 1))
                p = sol.solution_full.posterior if post == "posterior" else (sol.u if post == "marginals" else sol.solution_full)
                return probdiffeq.loss_lml_timeseries()(data, posterior=p, std=std_fn(0.1 * jnp.ones_like(good), 4))
            return run

        add(f"{name}/loss_timeseries/control", "control", mk_loss(lambda g, N: jnp.stack([g] * N)), name)
        add(f"{name}/loss_terminal/control", "control", mk_loss(lambda g, N: g, terminal=True), name)
        ts_bad = {"no_time_axis": lambda g, N: g, "time_len-1": lambda g, N: jnp.stack([g] * (N - 1)), "rank+1": lambda g, N: jnp.stack([g] * N)[..., None],
                  "list": lambda g, N: [g] * N, "scalar": lambda g, N: jnp.asarray(0.1) if g.ndim else jnp.ones((N, 2)),
                  "transposed": lambda g, N: jnp.stack([g] * N).T if g.ndim else jnp.ones((1, N))}
        for lab, fn in ts_bad.items():
            add(f"{name}/loss_timeseries/std/{lab}", "raise", mk_loss(fn), name)
        for lab, fn in {"rank+1": lambda g, N: g[..., None] if g.ndim else jnp.ones((1,)), "len+1": lambda g, N: jnp.ones(D + 1), "list": lambda g, N: [g],
                        "time_axis": lambda g, N: jnp.stack([g] * 4)}.items():
            add(f"{name}/loss_terminal/std/{lab}", "raise", mk_loss(fn, terminal=True), name)
        add(f"{name}/loss_timeseries/posterior=marginals", "raise", mk_loss(lambda g, N: jnp.stack([g] * N), post="marginals"), name)
        add(f"{name}/loss_timeseries/posterior=smoothing_solution", "raise", mk_loss(lambda g, N: jnp.stack([g] * N), post="solution_full"), name)

        # ---------------- residual-based error estimate whose constraint shape differs from the state
        def mk_err(name=name, lifted=True, d=D, lift_by=1):
            def run():
                vf, u0, tc = _base(d)
                ssm = _ssm(name)
                tc4, _ = probdiffeq.jetexpand_ode_unroll(num=2 + lift_by)(vf, (u0,), t=0.0)
                prior = ssm.prior_wiener_integrated(tc4)
                vfl = vf.jet_lift(lift_by=lift_by) if lifted else vf
                c = ssm.constraint_ode_ts0(vfl)
                solver = probdiffeq.solver(strategy=probdiffeq.strategy_filter(), constraint=c)
                err = probdiffeq.error_residual_std(constraint=c)
                sol = ivpsolve.solve_adaptive_terminal_values(solver=solver, error=err)(prior, t0=0.0, t1=0.2, atol=1e-3, rtol=1e-3)
                return sol.u.mean[0]
            return run

        add(f"{name}/error_residual_std/control", "control", mk_err(lifted=False), name)
        if name != "isotropic":  # the isotropic residual std is a single number, which the estimator documents as admissible
            add(f"{name}/error_residual_std/constraint_shape_differs", "raise", mk_err(lifted=True), name)
            # a state with a single entry must not be mistaken for the (documented) single-number residual std
            add(f"{name}/error_residual_std/control-d1", "control", mk_err(lifted=False, d=1), name)
            for lb in (1, 2):
                add(f"{name}/error_residual_std/constraint_shape_differs_d1_lift{lb}", "raise", mk_err(lifted=True, d=1, lift_by=lb), name)
            add(f"{name}/error_residual_std/constraint_shape_differs_d2", "raise", mk_err(lifted=True, d=2), name)

        # ---------------- unsuitable strategy / routine pairings must warn and name the remedy
        def mk_warn(which, name=name):
            def run():
                vf, u0, tc = _base()
                ssm = _ssm(name)
                c = ssm.constraint_ode_ts0(vf)
                fp = probdiffeq.solver(strategy=probdiffeq.strategy_smoother_fixedpoint(), constraint=c)
                fi = probdiffeq.solver(strategy=probdiffeq.strategy_smoother_fixedinterval(), constraint=c)
                err = probdiffeq.error_residual_std(constraint=c)
                if which == "fixed_grid+fixedpoint":
                    return ivpsolve.solve_fixed_grid(solver=fp)
                if which == "save_at+fixedinterval":
                    return ivpsolve.solve_adaptive_save_at(solver=fi, error=err)
                return test_util.solve_adaptive_save_every_step(fp, err)
            return run

        add(f"{name}/pairing/fixed_grid+fixedpoint", "warn:fixed-interval", mk_warn("fixed_grid+fixedpoint"), name)
        add(f"{name}/pairing/save_at+fixedinterval", "warn:fixed-point", mk_warn("save_at+fixedinterval"), name)
        add(f"{name}/pairing/every_step+fixedpoint", "warn:fixed-interval", mk_warn("every_step+fixedpoint"), name)

    # ---------------- lift orders
    def mk_lift(lift_by):
        def run():
            vf, u0, tc = _base()
            lifted = vf.jet_lift(lift_by=lift_by)
            return lifted.vector_field(jet_coords=tc, t=0.0)
        return run

    add("jet_lift/control-1", "control", mk_lift(1))
    for lab, lb in {"-1": -1, "too_large_5": 5, "float": 1.0, "string": "1", "none": None, "3_for_3_coeffs": 3}.items():
        add(f"jet_lift/lift_by={lab}", "raise", mk_lift(lb))

    # ---------------- exponential priors whose ODE order does not match the state
    def mk_expo(ncoeffs_in_ode, kind="ioup"):
        def run():
            vf, u0, tc = _base()
            ssm = _ssm("dense")
            ode = probdiffeq.ode_autonomous_order_arbitrary(lambda *ys: -ys[-1], num_tcoeffs_in_args=ncoeffs_in_ode,
                                                            jacobian=probdiffeq.jacobian_materialize())
            prior = ssm.prior_exponential(ode, tc)
            return _use_prior(ssm, prior, vf)
        return run

    add("dense/prior_exponential/control-order3", "control", mk_expo(Q + 1))
    for k in (1, 2, Q + 2):
        add(f"dense/prior_exponential/ode_order={k}_for_{Q + 1}_coeffs", "raise", mk_expo(k))
    for name in ("isotropic", "blockdiag"):
        def mk_ni(name=name):
            def run():
                vf, u0, tc = _base()
                return _ssm(name).prior_ornstein_uhlenbeck_integrated(lambda x: -x, tc)
            return run
        add(f"{name}/prior_exponential/not_implemented", "raise", mk_ni(), name)

    # ---------------- jet expansion with a plain function
    for rout in ("jetexpand_ode_unroll", "jetexpand_ode_padded_scan", "jetexpand_ode_via_jvp"):
        if hasattr(probdiffeq, rout):
            def mk_jet(rout=rout, plain=True):
                def run():
                    vf, u0, tc = _base()
                    return getattr(probdiffeq, rout)(num=2)(_f if plain else vf, (u0,), t=0.0)
                return run
            add(f"{rout}/control", "control", mk_jet(plain=False))
            add(f"{rout}/plain_function", "raise", mk_jet(plain=True))

    # ---------------- matrix-free model: too few ensemble members
    def mk_mf(num):
        def run():
            vf, u0, tc = _base()
            ssm = probdiffeq.state_space_model_matfree(key=jax.random.PRNGKey(1), num_ensembles=num)
            prior = ssm.prior_wiener_integrated(tc)
            c = ssm.constraint_ode_ts1(vf)
            solver = probdiffeq.solver(strategy=probdiffeq.strategy_filter(), constraint=c)
            sol = ivpsolve.solve_fixed_grid(solver=solver)(prior, grid=jnp.asarray([0.0, 0.1, 0.2]))
            return sol.u.mean[0]
        return run

    add("matfree/num_ensembles/control-8", "control", mk_mf(8))
    for num in (1, 2):
        add(f"matfree/num_ensembles={num}_for_{Q + 1}_coeffs", "raise", mk_mf(num))
    return E


_TABLE = None


def table():
    global _TABLE
    if _TABLE is None:
        _TABLE = entries()
    return _TABLE


def gen_indexed(run, src, tier):
    T = table()
    from checks import registry

    if registry.META["C20"]["TIERS"][tier] != len(T):  # the enumeration must cover the whole table
        raise RuntimeError(f"C20 table has {len(T)} entries but the registry enumerates {registry.META['C20']['TIERS'][tier]}")
    i = run % len(T)  # both tiers enumerate the table (it is small enough); VERIF_SEED does not matter here
    return {"index": i, "id": T[i]["id"]}


def gen(src, tier):
    return gen_indexed(0, src, "quick")


def contains_numbers(out):
    leaves = [x for x in tu.tree_leaves(out) if hasattr(x, "shape") or isinstance(x, (float, int))]
    return len(leaves) > 0


def execute(sc):
    T = table()
    e = next(x for x in T if x["id"] == sc["id"])
    viol = []
    outcome = None
    with warnings.catch_warnings(record=True) as w:
        warnings.simplefilter("always")
        try:
            out = e["fn"]()
            outcome = "returned"
        except Exception as ex:  # noqa: BLE001
            outcome = f"raised {type(ex).__name__}"
            msg = str(ex)
            out = None
    kind = e["kind"]
    if kind == "control":
        if outcome != "returned":
            viol.append({"inv": "REJECT-control", "msg": f"the valid call '{e['id']}' {outcome}: {msg[:160]}"})
    elif kind == "raise":
        if outcome == "returned":
            what = "numbers" if contains_numbers(out) else f"an object ({type(out).__name__})"
            viol.append({"inv": "REJECT-silent", "msg": f"corrupted call '{e['id']}' was accepted and returned {what}"})
    else:
        remedy = kind.split(":", 1)[1]
        texts = [str(x.message) for x in w]
        if outcome != "returned" and not texts:
            viol.append({"inv": "REJECT-warn", "msg": f"unsuitable pairing '{e['id']}' {outcome} instead of warning"})
        elif not texts:
            viol.append({"inv": "REJECT-warn", "msg": f"unsuitable pairing '{e['id']}' emits no warning"})
        elif not any(remedy in t.lower().replace("fixedpoint", "fixed-point").replace("fixedinterval", "fixed-interval") for t in texts):
            viol.append({"inv": "REJECT-warn", "msg": f"warning for '{e['id']}' does not name the remedy ({remedy}): {texts[0][:160]}"})
    return {
        "violations": viol,
        "stats": {"entries": 1},
        "probes": {"raised": int(outcome != "returned"), "controls_ok": int(kind == "control" and not viol)},
        "faults": {"F9_" + (e["id"].split("/")[-1] if kind == "raise" else kind.split(":")[0]): 1},
        "abstract": e["id"],
        "abstract_key": e["id"],
        "nontrivial": True,
        "cell": e["ssm"] + "|" + "/".join(e["id"].split("/")[1:3]),
        "mode": "eager",
        "digest": digest_of([e["id"], outcome]),
        "sample": {"entry": e["id"], "expected": kind, "outcome": outcome},
    }
