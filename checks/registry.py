"""Static metadata of every check (read by the parent process, which never imports jax)."""

META = {}

META["C06"] = {
    "LEVEL": "exploration",
    "TIERS": {"quick": 1500, "thorough": 40000},
    "WALLCAP": {"quick": 300, "thorough": 3000},
    "RULE": (
        "One evaluation = one seeded scenario (driver, local-error profile, checkpoint placement relative to the "
        "probe run's step ends, eps, clip, dt0, controller parameters, spurious-rejection rates and bias) run through "
        "the real loop against scripted Solver/Error peers; invariants I1..I8 are evaluated online after every peer "
        "call by a sequential reference model of the loop state. Distinct = distinct (configuration cell, abstract "
        "history string over {A accept, C clipped accept, R reject, b interpolate-beyond, a interpolate-at}); "
        "non-trivial = the history contains at least one rejection or at least two interpolations."
    ),
    "COMPONENTS": {
        "real": ["ivpsolve.solve_adaptive_save_at", "ivpsolve.solve_adaptive_terminal_values", "ivpsolve.RejectionLoop",
                 "test_util.solve_adaptive_save_every_step", "control_integral", "control_proportional_integral",
                 "lax.while_loop/cond/switch/scan under jit (compiled re-runs)"],
        "stub": ["Solver (token-issuing stub)", "ErrorEstimator (scripted h*(t)/dt profile with injected rejections)"],
        "seam": ["probdiffeq.backend.flow (Python-stepped)", "while_loop= argument", "ordered io_callback (compiled)"],
    },
    "PROBES": ["two_checkpoints_in_one_step", "step_end_within_eps_of_checkpoint", "rejection_directly_after_checkpoint",
               "three_consecutive_rejections", "PI_memory_used_after_rejection", "clipped_ratio_below_1e-3",
               "proposal_clipped_at_factor_min", "proposal_clipped_at_factor_max", "at_checkpoint_branch",
               "first_attempt_rejected", "compiled_same_abstract_history"],
    "ASSUMPTIONS": [
        "Solver and ErrorEstimator are stubs: only the loop and the controllers are the system under test here",
        "acceptance profiles guarantee acceptance after O(log) shrink steps; attempt budget 2000 per run "
        "(budget hits are counted as inconclusive, the property does not promise efficiency)",
        "sampling by seed, not enumeration",
    ],
}

META["C06"].update({
    "LEVEL_TEXT": "Seeded exploration of accept/reject histories: the real time-stepping loop and real controllers are driven "
                  "by scripted solver/error peers whose every decision the simulator owns; invariants I1..I8 are checked after "
                  "every peer call against a sequential reference model of the loop state, in Python-stepped mode and (a seeded "
                  "third) under jit with ordered host callbacks. Sampling, not proof; minimised, replayable counterexamples.",
    "LEVEL_NOTE": "Trusted: the scripted peers and the reference model of the loop (sim/stubworld.py); JAX's lax control flow; "
                  "that ordered io_callback preserves call order. Solver/estimator are stubs here (their real counterparts are "
                  "exercised by C01-C05, C07). Bounds: <=3000 attempts, <=12 checkpoints per run.",
    "TECHNIQUE": "deterministic simulation with fault injection: scripted peers + seeded accept/reject/checkpoint schedules, online invariants vs a reference model of the loop",
})

NOT_APPLICABLE = {
    "C10": "pure function of (vector field, initial values, t) evaluated once before any run; no peer, history, random source, "
           "schedule or fault for a simulator to own (DESIGN.md §4)",
    "C11": "pure construction-time algebra (jet lifting, constraint constructors); nothing to schedule or inject (DESIGN.md §4)",
    "C16": "derivatives of a deterministic function of its inputs; no schedule, clock, fault or interleaving (DESIGN.md §4)",
}

PENDING = {pid: "check under construction in this session (see DESIGN.md §3); not claimed until it is registered"
           for pid in ["C01", "C02", "C03", "C04", "C05", "C07", "C08", "C09", "C12", "C13", "C14", "C15", "C17", "C18", "C19", "C20"]}
