"""Static metadata of every check (read by the parent process, which never imports jax)."""

META = {}

META["C06"] = {
    "LEVEL": "exploration",
    "TIERS": {"quick": 1500, "thorough": 15000},
    "WALLCAP": {"quick": 300, "thorough": 3000},
    "RULE": (
        "One evaluation = one seeded scenario (driver, local-error profile, checkpoint placement relative to the "
        "probe run's step ends, eps, clip, dt0, controller parameters, spurious-rejection rates and bias, rate of exactly-zero error estimates) run through "
        "the real loop against scripted Solver/Error peers; invariants I1..I8 are evaluated online after every peer "
        "call by a sequential reference model of the loop state. Distinct = distinct (configuration cell, abstract "
        "history string over {A accept, C clipped accept, R reject, b interpolate-beyond, a interpolate-at}); "
        "non-trivial = the history contains at least one rejection or at least two interpolations."
    ),
    "COMPONENTS": {
        "real": ["ivpsolve.solve_adaptive_save_at", "ivpsolve.solve_adaptive_terminal_values", "ivpsolve.RejectionLoop",
                 "test_util.solve_adaptive_save_every_step", "control_integral", "control_proportional_integral",
                 "lax.while_loop/cond/switch/scan under jit (compiled re-runs)"],
        "stub": ["Solver (token-issuing stub)", "ErrorEstimator (scripted h*(t)/dt profile with injected rejections and vanishing estimates)"],
        "seam": ["probdiffeq.backend.flow (Python-stepped)", "while_loop= argument", "ordered io_callback (compiled)"],
    },
    "PROBES": ["two_checkpoints_in_one_step", "step_end_within_eps_of_checkpoint", "rejection_directly_after_checkpoint",
               "three_consecutive_rejections", "PI_memory_used_after_rejection", "clipped_ratio_below_1e-3",
               "proposal_clipped_at_factor_min", "proposal_clipped_at_factor_max", "at_checkpoint_branch",
               "first_attempt_rejected", "compiled_same_abstract_history"],
    "ASSUMPTIONS": [
        "Solver and ErrorEstimator are stubs: only the loop and the controllers are the system under test here",
        "acceptance profiles guarantee acceptance after O(log) shrink steps; attempt budget 2000 per run "
        "(budget hits are counted as inconclusive, the property does not promise efficiency)",
        "sampling by seed, not enumeration",
    ],
}

META["C06"].update({
    "LEVEL_TEXT": "Seeded exploration of accept/reject histories: the real time-stepping loop and real controllers are driven "
                  "by scripted solver/error peers whose every decision the simulator owns; invariants I1..I8 are checked after "
                  "every peer call against a sequential reference model of the loop state, in Python-stepped mode and (a seeded "
                  "third) under jit with ordered host callbacks. Sampling, not proof; minimised, replayable counterexamples.",
    "LEVEL_NOTE": "Trusted: the scripted peers and the reference model of the loop (sim/stubworld.py); JAX's lax control flow; "
                  "that ordered io_callback preserves call order. Solver/estimator are stubs here (their real counterparts are "
                  "exercised by C01-C05, C07). Bounds: <=3000 attempts, <=12 checkpoints per run.",
    "TECHNIQUE": "deterministic simulation with fault injection: scripted peers + seeded accept/reject/checkpoint schedules, online invariants vs a reference model of the loop",
})

NOT_APPLICABLE = {
    "C10": "pure function of (vector field, initial values, t) evaluated once before any run; no peer, history, random source, "
           "schedule or fault for a simulator to own (DESIGN.md §4)",
    "C11": "pure construction-time algebra (jet lifting, constraint constructors); nothing to schedule or inject (DESIGN.md §4)",
    "C16": "derivatives of a deterministic function of its inputs; no schedule, clock, fault or interleaving (DESIGN.md §4)",
}

PENDING = {pid: "check under construction in this session (see DESIGN.md §3); not claimed until it is registered"
           for pid in ["C01", "C02", "C03", "C04", "C05", "C07", "C08", "C09", "C12", "C13", "C14", "C15", "C17", "C18", "C19", "C20"]}

META["C02"] = {
    "LEVEL": "exploration",
    "TIERS": {"quick": 240, "thorough": 2400},
    "WALLCAP": {"quick": 400, "thorough": 5400},
    "RULE": ("One evaluation = one seeded (problem, configuration, step schedule): the real solver's init and every step "
             "(rejected attempts of forced adaptive histories included) is compared with the 50-digit reference EKF step "
             "applied to the real pre-state (means 1e-9 Nordsieck-relative, covariances 1e-8 relative to the predicted "
             "covariance, scales 1e-8+1e3*eps*kappa), plus the whole trajectory end to end. Distinct = distinct "
             "(configuration cell, schedule digest); every evaluation contains >= 3 checked operations (non-trivial)."),
    "COMPONENTS": {"real": ["solver/solver_mle/solver_dynamic", "strategy_filter", "three state-space models", "IWP/IOUP/Matern priors",
                            "TS0/TS1 constraints", "solve_fixed_grid", "solve_adaptive_save_at loop (forced histories)"],
                   "stub": ["ErrorEstimator/Control are history-forcing peers in forced schedules"],
                   "seam": ["probdiffeq.backend.flow (Python-stepped)", "Solver proxy recording pre/post states"]},
    "PROBES": ["retry_state_checked", "q>=7", "exponential_prior", "constraint_init", "diffuse_init", "second_order", "damped",
               "step_ratio>=10"],
    "ASSUMPTIONS": ["reference model = documented EKF in 50-digit arithmetic (sim/refmodel.py), polynomial right-hand sides",
                    "initial Taylor coefficients are taken from the real prior (C10 is not applicable here)",
                    "region: steps in [1e-3,1], consecutive ratio <= 100 (<= 3.3 at q>=7), q<=8, d<=3",
                    "scale-dependent assertions skipped when 1e3*eps*kappa > 1e-2 (counted as skipped_ill_conditioned)"],
    "LEVEL_TEXT": "Seeded exploration of step schedules fed to the real solver op by op, each operation refined against an "
                  "independent 50-digit reference EKF from the real pre-state, plus whole-trajectory comparison. Sampling, not proof.",
    "LEVEL_NOTE": "Trusted: sim/refmodel.py (about 350 lines, no square-root or preconditioning tricks), sim/embed.py (dense "
                  "embedding from fields), mpmath. No fault dimension beyond the schedule (stated in DESIGN.md).",
    "TECHNIQUE": "deterministic simulation: seeded step schedules (incl. forced rejections) + step-local refinement against an executable reference model",
}

META["C03"] = {
    "LEVEL": "exploration",
    "TIERS": {"quick": 160, "thorough": 1600},
    "WALLCAP": {"quick": 420, "thorough": 5400},
    "RULE": ("One evaluation = one seeded (problem, configuration, smoother habitat, forced or natural step history with "
             "rejections, checkpoint placement relative to the step ends, way the last step ends) run through the real "
             "solver and loop; the returned marginals, terminal marginal, backward factorisation (embedded from its fields) "
             "and neighbouring/distant cross-covariances are compared with the 50-digit reference RTS smoother over the "
             "recorded history (means 1e-7 Nordsieck-relative, covariances 1e-6 + kappa-aware term). Distinct = distinct "
             "(configuration cell, history digest); every evaluation has >= 3 steps and >= 2 output times (non-trivial)."),
    "COMPONENTS": {"real": ["solver/solver_mle/solver_dynamic", "strategy_smoother_fixedinterval", "strategy_smoother_fixedpoint",
                            "Smoother.finalize / evaluate_marginals", "solve_fixed_grid", "solve_adaptive_save_at",
                            "test_util.solve_adaptive_save_every_step", "error_residual_std + control_integral (natural histories)"],
                   "stub": ["history-forcing ErrorEstimator/Control in forced histories"],
                   "seam": ["probdiffeq.backend.flow (Python-stepped)", "func.jit -> identity", "recording Solver proxy"]},
    "PROBES": ["last_step_ends_exactly_at_T", "last_step_oversteps_T", "checkpoint_within_eps_of_step_end",
               "two_checkpoints_in_one_step", "fi_vs_fp_compared"],
    "ASSUMPTIONS": ["reference RTS in 50-digit arithmetic over the recorded accepted steps (forward pass errors are part of the "
                    "comparison; C02 bounds them at 1e-9)",
                    "checkpoints placed inside the eps window or >= 1e-3 h from a step end (regular class, DESIGN.md §2.6)",
                    "q <= 6, d <= 3, <= 60 accepted steps"],
    "LEVEL_TEXT": "Seeded exploration of smoother habitats and step/checkpoint histories on the real solver; every returned "
                  "marginal, the backward Markov factorisation and its cross-covariances are compared with an independent "
                  "50-digit RTS smoother. Sampling, not proof.",
    "LEVEL_NOTE": "Trusted: sim/refmodel.py, sim/scen.py (node list + RTS), sim/embed.py, mpmath.",
    "TECHNIQUE": "deterministic simulation: seeded accept/reject + checkpoint histories on the real loop, reference-model (RTS) oracle over the recorded history",
}

META["C05"] = {
    "LEVEL": "exploration",
    "TIERS": {"quick": 96, "thorough": 960},
    "WALLCAP": {"quick": 420, "thorough": 5400},
    "RULE": ("One evaluation = one seeded (problem, configuration, forced or natural step history with injected spurious "
             "rejections / proposal jitter): three to five real solves with checkpoint sets A={t0,T}, A' and B (A<A'<B, B placed "
             "relative to the realised step ends: at an end, inside the eps window, several in one step, regular interior "
             "points), a save-every-step run and the terminal-value routine. Oracles: bitwise equality of the attempt history, "
             "equality at common checkpoints (1e-9), reference interpolation of the recorded history (1e-7/1e-6 + kappa-aware), "
             "offgrid marginals, terminal values. Distinct = distinct (configuration cell, history digest); non-trivial = at "
             "least one checkpoint was inserted."),
    "COMPONENTS": {"real": ["solve_adaptive_save_at", "solve_adaptive_terminal_values", "test_util.solve_adaptive_save_every_step",
                            "solver.offgrid_marginals", "filter / fixed-point / fixed-interval strategies", "three state-space models",
                            "error_residual_std + controllers (natural histories)"],
                   "stub": ["history-forcing ErrorEstimator/Control in forced histories"],
                   "seam": ["probdiffeq.backend.flow (Python-stepped)", "recording/faulting proxies around estimator and controller"]},
    "PROBES": ["checkpoint_within_eps_of_step_end", "two_checkpoints_in_one_step", "rejection_before_checkpointed_step",
               "subset_compared", "offgrid_points_compared", "terminal_compared"],
    "ASSUMPTIONS": ["no step clipping (as the property states); checkpoints inside the eps window or >= 1e-3 h from a step end",
                    "q <= 5, d <= 3, <= 60 accepted steps", "reference interpolation in 50-digit arithmetic"],
    "LEVEL_TEXT": "Seeded exploration: checkpoints are interrupts inserted into a fixed step history of the real loop and solver; "
                  "history equality is checked bitwise, values against each other and against an independent reference "
                  "interpolation. Sampling, not proof.",
    "LEVEL_NOTE": "Trusted: sim/refmodel.py, sim/scen.py, sim/embed.py; the two-pass placement is sound only if checkpoints do not "
                  "move steps, which is itself asserted (HIST).",
    "TECHNIQUE": "deterministic simulation: checkpoint sets as injected interrupts on a fixed seeded step history; history-equality and reference-interpolation oracles",
}

META["C04"] = {
    "LEVEL": "exploration",
    "TIERS": {"quick": 128, "thorough": 1280},
    "WALLCAP": {"quick": 420, "thorough": 5400},
    "RULE": ("One evaluation = one seeded scenario of two classes. conserve: a forced accept/reject history with checkpoints on "
             "the real solver; the reported scale is recomputed from the whitened residuals the reference model obtains from the "
             "real pre-state of every ACCEPTED step (rejected attempts must not count, the initial-constraint update counts "
             "once), dynamic scales per step and per output, covariances vs an uncalibrated twin run. equivariance: twin runs "
             "with base scale c*Lambda (c=2^k or c in [1e-6,1e6]) through natural adaptive runs or fixed grids. Distinct = "
             "distinct (configuration cell, history digest, c); every evaluation compares >= 3 steps (non-trivial)."),
    "COMPONENTS": {"real": ["solver / solver_mle / solver_dynamic", "all three strategies and state-space models",
                            "solve_adaptive_save_at", "solve_fixed_grid", "test_util.solve_adaptive_save_every_step",
                            "error estimators + controllers (equivariance class)"],
                   "stub": ["history-forcing ErrorEstimator/Control in the conserve class"],
                   "seam": ["probdiffeq.backend.flow (Python-stepped)", "recording Solver proxy"]},
    "PROBES": ["init_constraint_term_counted", "unit_scale_twin_compared", "filtering_marginals_compared", "bitwise_same_history", "pow2_bitwise_means"],
    "ASSUMPTIONS": ["equivariance only with exact initial state, no damping, no diffuse derivatives (the only setting in which "
                    "the statement is mathematically true)", "margin rule: a twin run with a non-power-of-two c whose history "
                    "differs is inconclusive if some acceptance quantity was within 1e-6 of one",
                    "scale tolerances 1e-8 + 1e3*eps*kappa; skipped when ill-conditioned"],
    "LEVEL_TEXT": "Seeded exploration of histories: conservation of the running RMS over accepted steps only, and twin-run "
                  "equivariance under rescaling of the prior. Sampling, not proof.",
    "LEVEL_NOTE": "Trusted: sim/refmodel.py for the whitened residuals (step-local, from the real pre-state), sim/embed.py.",
    "TECHNIQUE": "deterministic simulation: forced accept/reject histories with conservation oracle over the recorded history; twin runs under rescaled prior",
}

META["C14"] = {
    "LEVEL": "exploration",
    "TIERS": {"quick": 112, "thorough": 1120},
    "WALLCAP": {"quick": 420, "thorough": 5400},
    "RULE": ("One evaluation = one seeded problem and history processed in lock step by replicas: dense/isotropic/block-diagonal "
             "(TS0, default scales), dense vs isotropic on natural adaptive runs (attempt histories must coincide, margin rule), "
             "block-diagonal TS1 vs d scalar dense solves on decoupled problems, isotropic vs dense TS1 on scalar-Jacobian "
             "problems. States after every accepted step and all outputs are embedded densely and compared (means 1e-9, "
             "covariances 1e-7 uncalibrated / 1e-5 calibrated, scales 1e-6). Distinct = distinct (cell, history digest); every "
             "evaluation compares >= 2 replicas over >= 3 steps (non-trivial)."),
    "COMPONENTS": {"real": ["state_space_model_dense / _isotropic / _blockdiag", "all solvers and strategies", "real loop"],
                   "stub": ["history-forcing peers on common grids (as the property requires for dense vs block-diagonal)"],
                   "seam": ["probdiffeq.backend.flow (Python-stepped)", "recording Solver proxy"]},
    "PROBES": ["triple_compared", "adaptive_pair_same_history", "scalar_replicas_compared", "scalarjac_pair_compared"],
    "ASSUMPTIONS": ["replica comparison only (no reference model involved)", "default base scales; damping identical in all replicas",
                    "q <= 6, d <= 3"],
    "LEVEL_TEXT": "Seeded exploration with lock-step replicas of the three factorisations on one history; first divergence is "
                  "reported. Sampling, not proof.",
    "LEVEL_NOTE": "Trusted: sim/embed.py (dense embedding from fields). Equalities asserted are exactly those listed in the property.",
    "TECHNIQUE": "deterministic simulation: lock-step replicas of the factorisations on one seeded forced/natural history, divergence oracle after every event",
}

META["C13"] = {
    "LEVEL": "exploration",
    "TIERS": {"quick": 128, "thorough": 1280},
    "WALLCAP": {"quick": 420, "thorough": 5400},
    "RULE": ("One evaluation = one seeded smoother posterior (fixed-interval on fixed grids or save-every-step runs, fixed-point with "
             "checkpoints; forced histories with rejections) or a prior sequence on a grid, sampled with a scripted random source: "
             "all-zero draws (sample must equal the means), one one-hot run per scalar draw (identifies the affine map; its Gram "
             "matrix must equal the joint covariance of all output times, 1e-7), draw count = outputs x state coordinates, "
             "pairwise distinct keys, batched shapes. Distinct = distinct (cell, history digest); every evaluation identifies "
             ">= 12 columns (non-trivial)."),
    "COMPONENTS": {"real": ["MarkovSequence.sample / from_grid", "apply_flat + sample_flat of the three factorisations",
                            "smoother runs producing the posteriors"],
                   "stub": ["random source: backend.random.normal scripted; split logged"],
                   "seam": ["probdiffeq.backend.random module attributes", "probdiffeq.backend.flow (Python-stepped)"]},
    "PROBES": ["one_hot_columns", "batched_shape_checked"],
    "ASSUMPTIONS": ["joint covariance oracle = the posterior's own backward factorisation embedded densely from its fields "
                    "(C03 decides that this factorisation is the RTS posterior); prior-on-grid oracle = 50-digit reference",
                    "q <= 3, d <= 3, <= 5 output times"],
    "LEVEL_TEXT": "Seeded exploration with the random source owned by the simulator: the draw-to-sample map is identified exactly "
                  "and compared with the joint Gaussian law. Sampling over posteriors, exact per posterior.",
    "LEVEL_NOTE": "Trusted: sim/randseam.py, sim/embed.py, the linearity of the sampler in its draws (checked implicitly: zero "
                  "draw + one-hot columns reproduce the Gram).",
    "TECHNIQUE": "deterministic simulation with a scripted random source (zero / one-hot draws, key log) over posteriors from seeded smoother histories",
}

META["C17"] = {
    "LEVEL": "exploration",
    "TIERS": {"quick": 320, "thorough": 3200},
    "WALLCAP": {"quick": 300, "thorough": 3000},
    "RULE": ("One evaluation = one seeded polynomial map (n_in,d)->(n_out,d) (non-square shapes included), evaluation point, AD "
             "mode and sequence of 2-4 trace/diagonal calls threaded with the returned state. The probe source is scripted with "
             "the complete sign cube 2^(n*d) (n*d <= 12 quick / 14 thorough), so the handler's average must equal the exact "
             "blocks computed from the coefficient table (1e-11); keys are logged; six corruptions of fun/x must raise. "
             "Distinct = distinct (map, point, mode, call sequence); non-trivial = the Jacobian has more than one entry."),
    "COMPONENTS": {"real": ["jacobian_materialize", "jacobian_monte_carlo_fwd", "jacobian_monte_carlo_rev", "_verify_fun_and_x"],
                   "stub": ["random source: backend.random.rademacher scripted with the full sign cube; split logged"],
                   "seam": ["probdiffeq.backend.random module attributes"]},
    "PROBES": ["cube_probes", "corruptions_rejected", "odd_probe_counts_checked"],
    "ASSUMPTIONS": ["exactly-unbiased is decided by full enumeration of the probes inside one call (exhaustive per call), the "
                    "space of maps/points/shapes is sampled by seed"],
    "LEVEL_TEXT": "Seeded exploration over maps, points and shapes with the probe source owned by the simulator and enumerated "
                  "completely inside each call; key protocol over call sequences.",
    "LEVEL_NOTE": "Trusted: sim/randseam.py; the coefficient-table Jacobian in checks/c17.py.",
    "TECHNIQUE": "deterministic simulation with a scripted random source: complete sign-cube enumeration per call, key log over call sequences, argument corruption",
}

META["C12"] = {
    "LEVEL": "exploration",
    "TIERS": {"quick": 160, "thorough": 1600},
    "WALLCAP": {"quick": 420, "thorough": 5400},
    "RULE": ("One evaluation = one seeded smoother posterior from a simulated history (fixed grid / every-step fixed-interval, "
             "fixed-point with checkpoints incl. coinciding ones, rejections in between), a dataset near the solution, noise "
             "levels 1e-6..1e3 (per entry / per time / constant), coefficient index, averaging flag; the time-series and "
             "terminal-value losses are compared with the Gaussian log-density computed in 50-digit arithmetic from the "
             "posterior's embedded backward factorisation. Distinct = distinct (cell, history digest); non-trivial = >= 2 output times."),
    "COMPONENTS": {"real": ["loss_lml_timeseries", "loss_lml_terminal_values", "MarkovSequence.evaluate_lml", "to_derivative",
                            "bayes_rule_and_logpdf_tree", "smoother runs producing the posteriors"],
                   "stub": ["history-forcing peers"], "seam": ["probdiffeq.backend.flow (Python-stepped)"]},
    "PROBES": ["coinciding_output_times", "noise_free_initial_state", "std_below_1e-4"],
    "ASSUMPTIONS": ["the loss is a function of (posterior, data): the simulator contributes history-shaped posteriors only",
                    "joint law = the posterior's own backward factorisation embedded densely (C03 ties it to the reference RTS)",
                    "tolerance 1e-7 + 1e-13*min(cond,1e8) relative to 1+|value|"],
    "LEVEL_TEXT": "Seeded exploration over history-shaped posteriors, data and noise levels; the oracle is the joint Gaussian "
                  "log-density in 50-digit arithmetic.",
    "LEVEL_NOTE": "Trusted: sim/embed.py, mpmath Cholesky; end-of-run check (stated as such in DESIGN.md).",
    "TECHNIQUE": "deterministic simulation (history-shaped posteriors from seeded accept/reject/checkpoint schedules) with an end-of-run joint-Gaussian oracle",
}

META["C07"] = {
    "LEVEL": "exploration",
    "TIERS": {"quick": 96, "thorough": 960},
    "WALLCAP": {"quick": 420, "thorough": 5400},
    "RULE": ("One evaluation = one seeded natural adaptive run (problem, configuration, estimator kind / norm / re-linearisation / "
             "per-unit-step / derivative index, tolerances atol != rtol, checkpoints, injected spurious rejections and proposal "
             "jitter); at every attempt (<= 40 per run) the reference recomputes the documented acceptance quantity from the "
             "previous mean only and compares (1e-8 + 1e3*eps*kappa); the vector-field call log is checked per attempt; a third "
             "of the exact-init runs is re-run with a rescaled prior. Distinct = distinct (cell, history digest); non-trivial = "
             ">= 3 attempts."),
    "COMPONENTS": {"real": ["error_residual_std", "error_state_std", "error_norm_scale_then_rms / rms_then_scale", "real solver, loop, controllers"],
                   "stub": [], "seam": ["recording/faulting proxies around estimator and controller", "user vector field call log",
                                        "probdiffeq.backend.flow (Python-stepped)"]},
    "PROBES": ["twin_rescaled"],
    "ASSUMPTIONS": ["partial: decided on the (previous, proposed) pairs reachable by the simulated runs, not on the whole input "
                    "space of the quantifier", "reference = sim/refmodel.py one-step quantities from the previous mean with zero covariance"],
    "LEVEL_TEXT": "In-run invariant monitor over seeded adaptive runs with fault injection: the number compared with one is "
                  "recomputed at every attempt by an independent 50-digit model. Partial (reachable states only).",
    "LEVEL_NOTE": "Trusted: sim/refmodel.py; kappa-aware tolerance; ill-conditioned attempts are skipped and counted.",
    "TECHNIQUE": "deterministic simulation: in-run invariant monitor on every attempt of seeded adaptive runs with injected rejections/jitter, reference-model oracle",
}

META["C01"] = {
    "LEVEL": "exploration",
    "TIERS": {"quick": 192, "thorough": 1920},
    "WALLCAP": {"quick": 420, "thorough": 5400},
    "RULE": ("One evaluation = one seeded scenario. adaptive: a natural run of the real solver/estimator/controller/loop on an "
             "IVP with known solution (12 families incl. non-autonomous, second-order, |u| far from 1, 30-digit references for "
             "polynomial systems), tolerances 1e-9..1e-2 with atol != rtol, all factorisations x calibrations x strategies x "
             "TS0/TS1 x q<=6, with injected spurious rejections, proposal jitter, checkpoints placed relative to the probe run's "
             "step ends, aligned final times (incl. tiny clipped remainders) and dt0 extremes / dt0 helpers; oracle "
             "|error| <= 10 (atol + rtol|u|) at every requested time. fixed: grids h, h/2, h/4 (uniform or perturbed), observed "
             "order >= q+1-0.5 while errors are above rounding. Distinct = distinct (cell, history digest, tolerance)."),
    "COMPONENTS": {"real": ["everything: solver, strategies, state-space models, error_residual_std, controllers, "
                            "solve_adaptive_save_at / terminal_values / save_every_step, solve_fixed_grid, dt0 helpers"],
                   "stub": [], "seam": ["recording/faulting proxies around estimator and controller", "probdiffeq.backend.flow (Python-stepped)"]},
    "PROBES": ["clipped_or_burst_step_ratio_below_1e-2", "checkpoints", "dt0_from_helper", "atol_ne_rtol", "fixed_grid_triples"],
    "ASSUMPTIONS": ["K = 10 (never below 5x the largest ratio observed on the repaired tree in the calibration batch)",
                    "<= 600 attempts per run (more: inconclusive_budget)", "Lipschitz x horizon <= 3",
                    "end-to-end safety net: notices errors of about an order of magnitude; sharp detectors are C02, C06, C07"],
    "LEVEL_TEXT": "Seeded end-to-end exploration with fault injection on IVPs with independently known solutions. Sampling, not proof.",
    "LEVEL_NOTE": "Trusted: closed-form solutions / mp.odefun at 30 digits (sim/worlds.py). Known finding: tiny accepted steps "
                  "(ratio < 1e-2 to the predecessor) with zeroth-order linearisation, see known_findings.json.",
    "TECHNIQUE": "deterministic simulation with fault injection (spurious rejections, jitter, checkpoint/final-time alignment, dt0 extremes) against known ODE solutions",
}

META["C15"] = {
    "LEVEL": "exploration",
    "TIERS": {"quick": 48, "thorough": 480},
    "WALLCAP": {"quick": 480, "thorough": 5400},
    "RULE": ("One evaluation = one seeded scenario. schedule: the same solve executed Python-stepped (oracle), lax-eager, jitted and "
             "inside a vmap batch of 2-5 members whose position, tolerances (1e-9..1e-2), final times and initial values the seed "
             "decides (one member typically needs >= 5x the steps of the others); adaptive and fixed-grid routines, filter and "
             "smoothers; values (1e-9), finiteness and step counts must equal the solo stepped run. structure: random nested "
             "dict/tuple/list/namedtuple states with leaves of rank 0-3 vs the flattened problem (same numbers, caller's structure, "
             "leading time axis), permutation of <= 4 components. Distinct = distinct (cell, batch composition / tree structure)."),
    "COMPONENTS": {"real": ["everything under jax.jit / jax.vmap / eager lax control flow", "TreeFlatten classes of the three factorisations"],
                   "stub": [], "seam": ["execution mode chosen by the seed: stepped (flow seam) / lax-eager / jit / vmap batch composition"]},
    "PROBES": ["batch_step_ratio>=5", "bitwise_vmap", "bitwise_jit", "bitwise_lax-eager", "tree_vs_flat_compared", "permutation_compared"],
    "ASSUMPTIONS": ["oracle = the solo Python-stepped run (its faithfulness to the compiled loop is itself what the comparison tests)",
                    "a permutation run whose step counts differ is inconclusive (margin rule), never a violation"],
    "LEVEL_TEXT": "Seeded exploration of execution schedules (stepped / lax / jit / vmap batch composition) and state structures. "
                  "Sampling, not proof.",
    "LEVEL_NOTE": "Trusted: JAX transformations themselves. vmap batches <= 5, state dimension <= 5.",
    "TECHNIQUE": "deterministic simulation of execution schedules: seeded jit/vmap batch composition vs a solo Python-stepped run; pytree/permutation twins",
}

META["C19"] = {
    "LEVEL": "exploration",
    "TIERS": {"quick": 1600, "thorough": 16000},
    "WALLCAP": {"quick": 300, "thorough": 3000},
    "RULE": ("One evaluation = one seeded constrained least-squares problem (affine or mildly nonlinear polynomial constraint with "
             "1..D-1 rows, D<=10, random mean, Cholesky factor incl. zero columns / low rank, tolerance 1e-4..1e-12 or unreachable, "
             "budget 1..50) run on the loop seam so every iteration is observed. Oracles: reported iters == observed iterations, "
             "final_constraint / final_increment truthful, three-way termination (no early stop, no needless iteration), "
             "displacement in range(C J^T), affine => conditional mean after one iteration, MAP Taylor point. Distinct = distinct "
             "problem; non-trivial = at least one iteration ran."),
    "COMPONENTS": {"real": ["lstsq_constrained_gauss_newton", "taylor_point_maximum_a_posteriori", "linalg.lstsq_svd"],
                   "stub": [], "seam": ["while_loop= constructor argument (loop observed per iteration)"]},
    "PROBES": ["budget_exhausted", "optimality_checked", "affine_conditional_mean_checked", "taylor_point_checked", "singular_weight", "mean_at_origin"],
    "ASSUMPTIONS": ["numpy pinv / lstsq as the independent linear algebra of the oracle"],
    "LEVEL_TEXT": "Seeded exploration of problems and iteration budgets with the iteration loop owned by the simulator.",
    "LEVEL_NOTE": "Trusted: numpy linear algebra. The exact-filter-update clause is checked through the MAP Taylor point only.",
    "TECHNIQUE": "deterministic simulation on the loop seam: per-iteration observation, budget-exhaustion and singular-weight faults, conditional-mean oracle",
}

META["C18"] = {
    "LEVEL": "exploration",
    "TIERS": {"quick": 320, "thorough": 3200},
    "WALLCAP": {"quick": 360, "thorough": 4000},
    "RULE": ("One evaluation = one seeded initial state (generic, exactly zero, 1e-300, up to 1e300, mixed scales 1e-8..1e8, on an "
             "equilibrium, zero state and field), polynomial vector field, tolerances 1e-12..1, rate 1..12, array/dict/tuple "
             "state: both helpers must return a finite, strictly positive step; dt0_adaptive must equal an independent HNW II.4 "
             "(1e-8, either norm convention); an adaptive solve started from each proposal must finish within 400 attempts "
             "with finite output. Distinct = distinct (state, field, tolerances, rate)."),
    "COMPONENTS": {"real": ["ivpsolve.dt0", "ivpsolve.dt0_adaptive", "solve_adaptive_terminal_values + real solver (liveness clause)"],
                   "stub": [], "seam": ["attempt-counting proxy around the error estimator", "probdiffeq.backend.flow (Python-stepped)"]},
    "PROBES": ["hnw_compared", "liveness_checked"],
    "ASSUMPTIONS": ["weak claim: only the bounded-liveness clause is simulation in the proper sense; the rest is input generation "
                    "(stated in DESIGN.md)", "magnitudes >= 1e100 are outside what double-precision squares can represent: "
                    "known finding, liveness not attempted there"],
    "LEVEL_TEXT": "Seeded exploration of degenerate initial states with an independent HNW implementation and a bounded-liveness run.",
    "LEVEL_NOTE": "Trusted: the mp implementation of HNW II.4 in checks/c18.py.",
    "TECHNIQUE": "seeded degenerate-input generation plus bounded-liveness simulation (adaptive run from the proposal within an attempt budget)",
}

META["C20"] = {
    "LEVEL": "fault_enumeration",
    "TIERS": {"quick": 313, "thorough": 313},
    "WALLCAP": {"quick": 300, "thorough": 600},
    "EXHAUSTIVE": {"quick": True, "thorough": True},
    "RULE": ("Complete enumeration of a table of 313 entries: valid call recipes for the constructors / entry points named in the "
             "property (Wiener and diffuse priors, transition(), exactness flags, Taylor-coefficient containers, constraint "
             "constructors, both losses, residual-based error estimate, lift orders, exponential priors, jet expansion, matrix-free "
             "ensemble size, three strategy/routine pairings) x dense / isotropic / block-diagonal x single-field corruptions (wrong "
             "rank, length, tree structure, dtype, object type, inadmissible value) plus 41 control entries (the uncorrupted call "
             "must work) and 9 warning entries. One evaluation = one entry; distinct = distinct entry id; all are non-trivial."),
    "COMPONENTS": {"real": ["all public constructors / entry points listed in the rule"], "stub": [], "seam": ["caller arguments (F9)"]},
    "PROBES": ["raised", "controls_ok"],
    "ASSUMPTIONS": ["corruptions the documented API accepts (e.g. scalar exactness leaves for the dense model, a single-number "
                    "residual std for the isotropic model) are not in the table",
                    "the table is finite and hand-written: it enumerates its own 313 entries, not 'every public entry point'"],
    "LEVEL_TEXT": "Fault enumeration: every (recipe, single-field corruption, factorisation) entry of a finite table is executed; "
                  "the oracle is 'raises at construction or first use, never numbers' and 'warns naming the remedy'.",
    "LEVEL_NOTE": "Trusted: the recipes in checks/c20.py; controls guard against recipes that fail for unrelated reasons.",
    "TECHNIQUE": "fault enumeration: single-field argument corruption of valid call recipes across the three factorisations, with control entries",
}

META["C08"] = {
    "LEVEL": "exploration",
    "TIERS": {"quick": 160, "thorough": 1600},
    "WALLCAP": {"quick": 420, "thorough": 5400},
    "RULE": ("One evaluation = one seeded simulated workload (forced history with rejections and checkpoints through the real loop "
             "or a fixed grid, any strategy / factorisation / calibration / prior, then sampling, both losses, off-grid marginals, "
             "preconditioner removal) executed with every conditional / normal method of the three factorisations wrapped; each "
             "executed operation with concrete operands is recomputed with the dense formulas on the embedded operands (1e-8). "
             "Distinct = distinct (cell, history digest); non-trivial = at least 10 operations were checked."),
    "COMPONENTS": {"real": ["Dense/Isotropic/BlockDiag LatentCond: marginalise, revert, merge, apply_flat, preconditioner_apply",
                            "Dense/Isotropic/BlockDiag Normal: rescale_cholesky, logpdf, residual_whitened_rms, to_multivariate_normal",
                            "cholesky_util.revert_conditional / sum_of_sqrtm_factors (through them)"],
                   "stub": [], "seam": ["method wrappers installed for the duration of a run (in-run monitor)", "flow seam"]},
    "PROBES": ["singular_covariance_reverts", "apply_flat_with_nonunit_scalings", "op_marginalise", "op_revert", "op_merge", "op_apply_flat",
               "op_preconditioner_apply", "op_rescale_cholesky", "op_logpdf", "op_residual_whitened_rms", "op_to_multivariate_normal"],
    "ASSUMPTIONS": ["partial: coverage is what simulated runs reach (q<=6, d<=3, the scalings h^k/k! of the preconditioner, singular "
                    "factors from exact initial states); the direct quantifier of C08 (all shapes, all scalings 1e-12..1e12, batched "
                    "variants) is NOT covered", "operations inside vmap (tracers) are not observed"],
    "LEVEL_TEXT": "In-run invariant monitor: every Gaussian-algebra operation executed by seeded simulated runs is refined against "
                  "the dense formulas. Partial by construction (reachable operands only).",
    "LEVEL_NOTE": "Trusted: sim/embed.py and the dense formulas in sim/monitors.py (numpy float64; identities are chosen so that no "
                  "cancellation occurs: joint-law form for revert).",
    "TECHNIQUE": "deterministic simulation with an in-run invariant monitor on every conditional/normal operation of seeded solver histories",
}

META["C09"] = {
    "LEVEL": "exploration",
    "TIERS": {"quick": 160, "thorough": 1600},
    "WALLCAP": {"quick": 420, "thorough": 5400},
    "RULE": ("One evaluation = one seeded simulated run (forced history with rejections, checkpoints, dynamic/MLE/no calibration, "
             "IWP / Ornstein-Uhlenbeck / Matern prior, three factorisations for IWP) during which every executed "
             "prior.transition(dt, scale) is compared with the exact discretisation (1e-9 in Nordsieck coordinates; closed form or "
             "50-digit Van-Loan expm); sub-transitions at every checkpoint split are merged and compared with the whole step; for "
             "exponential priors all five Pade/Legendre orders are evaluated on the run's scaled matrices (1e-9); a "
             "twin prior with base scale c*Lambda must scale the process noise by c^2. Distinct = distinct (cell, history digest); "
             "non-trivial = at least 3 transitions were checked."),
    "COMPONENTS": {"real": ["DenseWienerIntegrated / Isotropic / BlockDiag transition()", "DenseExponential.transition (Pade/Legendre order 9 + doubling)",
                            "preconditioner_taylor", "system_matrices_1d_iwp / cholesky_hilbert", "LatentCond.merge (composition)"],
                   "stub": [], "seam": ["transition() wrapper installed for the duration of a run (in-run monitor)", "flow seam"]},
    "PROBES": ["transitions_checked", "exponential_prior", "q>=6", "checkpoint_splits_composed", "twin_base_scale", "pade_orders_probed"],
    "ASSUMPTIONS": ["partial: step sizes and scales are those the simulated runs reach (h in [1e-4, 0.5], q<=8, d<=3, float64); all five "
                    "Pade/Legendre orders are probed on the scaled drift/dispersion matrices of run transitions (|A|_1 up to ~5), float32 "
                    "is NOT covered"],
    "LEVEL_TEXT": "In-run invariant monitor: every prior discretisation executed by seeded simulated runs is compared with the exact "
                  "SDE discretisation; composition is probed at checkpoint splits. Partial by construction.",
    "LEVEL_NOTE": "Trusted: sim/refmodel.py priors (closed-form IWP, mp.expm Van-Loan).",
    "TECHNIQUE": "deterministic simulation with an in-run invariant monitor on every prior transition of seeded solver histories; composition probes at checkpoint splits",
}
