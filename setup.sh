#!/bin/bash
# Offline setup: mpmath (reference model arithmetic) from the local wheelhouse into /verif/.deps.
cd "$(dirname "$0")" || exit 2
set -e
if [ ! -d .deps/mpmath ]; then
  mkdir -p .deps
  PIP_NO_INDEX=1 /venv/bin/python -m pip install --quiet --no-index --find-links /opt/veriftools/wheels \
      --target .deps --no-deps mpmath
fi
export PYTHONPATH="$PWD:${VERIF_REPO:-/repo}:$PWD/.deps"
/venv/bin/python -c "import mpmath, jax, probdiffeq; print('setup ok: mpmath', mpmath.__version__, 'jax', jax.__version__)"
./check selftest C06 C19 --n=3
