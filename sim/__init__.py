"""probsim: deterministic simulation with fault injection for probdiffeq (see /verif/DESIGN.md)."""
