"""The only PRNG of a simulated run: named draws from one integer."""

import hashlib
import math
import random


def derive_seed(verif_seed: int, prop: str, run: int) -> int:
    h = hashlib.blake2b(f"{verif_seed}:{prop}:{run}".encode(), digest_size=8)
    return int.from_bytes(h.digest(), "big")


class Src:
    """Seeded source of named choices.  The trace is for inspection only;
    replay files store the generated scenario, which is a pure function of it."""

    def __init__(self, seed: int):
        self.seed = int(seed)
        self._rng = random.Random(self.seed)
        self.trace = []

    def _rec(self, name, v):
        self.trace.append((name, v))
        return v

    def choice(self, name, options):
        options = list(options)
        return self._rec(name, options[self._rng.randrange(len(options))])

    def weighted(self, name, pairs):
        """pairs: [(value, weight), ...]"""
        tot = sum(w for _, w in pairs)
        x = self._rng.random() * tot
        acc = 0.0
        for v, w in pairs:
            acc += w
            if x < acc:
                return self._rec(name, v)
        return self._rec(name, pairs[-1][0])

    def uniform(self, name, a, b):
        return self._rec(name, a + (b - a) * self._rng.random())

    def loguniform(self, name, a, b):
        return self._rec(name, math.exp(math.log(a) + (math.log(b) - math.log(a)) * self._rng.random()))

    def randint(self, name, a, b):
        """inclusive"""
        return self._rec(name, self._rng.randint(a, b))

    def flip(self, name, p=0.5):
        return self._rec(name, self._rng.random() < p)

    def rounded(self, name, a, b, digits=3):
        return self._rec(name, round(a + (b - a) * self._rng.random(), digits))

    def subseed(self, name):
        return self._rec(name, self._rng.getrandbits(48))

    def sample(self, name, options, k):
        options = list(options)
        idx = self._rng.sample(range(len(options)), k)
        return self._rec(name, [options[i] for i in idx])
