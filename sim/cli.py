"""Command line of probsim.  `./check <ID> [--tier quick|thorough]`, `./check replay <file>`."""

import argparse
import os
import sys


def main(argv=None):
    argv = list(sys.argv[1:] if argv is None else argv)
    if not argv:
        print(__doc__)
        return 2
    from sim import runner

    cmd = argv[0]
    if cmd == "worker":
        _, pid, tier, seed, start, stride, count, out, deadline = argv
        runner.worker_main(pid, tier, int(seed), int(start), int(stride), int(count), out, float(deadline))
        return 0
    if cmd == "shrink":
        return runner.shrink_main(argv[1], argv[2])
    if cmd == "replay":
        return runner.replay_main(argv[1], quiet="--quiet" in argv)
    if cmd == "selftest":
        from sim import selftest

        return selftest.main(argv[1:])
    ap = argparse.ArgumentParser()
    ap.add_argument("pid")
    ap.add_argument("--tier", default=os.environ.get("VERIF_TIER", "quick"))
    ap.add_argument("--runs", type=int, default=None)
    ap.add_argument("--workers", type=int, default=None)
    ap.add_argument("--seed", type=int, default=int(os.environ.get("VERIF_SEED", "0") or 0))
    ap.add_argument("--keep", action="store_true")
    a = ap.parse_args(argv)
    if a.tier not in ("quick", "thorough"):
        a.tier = "quick"
    return runner.check_main(a.pid.upper(), a.tier, a.seed, runs=a.runs, workers=a.workers, keep=a.keep)


if __name__ == "__main__":
    try:
        rc = main()
    except SystemExit:
        raise
    except BaseException as e:  # noqa: BLE001  -- an uncaught exception must never look like exit 1
        import traceback

        traceback.print_exc()
        print(f"HARNESS-ERROR uncaught {type(e).__name__}: {e}")
        rc = 2
    sys.exit(rc)
