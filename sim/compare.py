"""Conditioning-aware comparisons (DESIGN.md §2.6)."""

import math

import numpy as onp

EPS = 2.220446049250313e-16

TOL_LOCAL_MEAN = 1e-9
TOL_LOCAL_COV = 1e-8
TOL_GLOBAL_MEAN = 1e-7
TOL_GLOBAL_COV = 1e-6


def nordsieck_scales(q, d, h):
    return onp.repeat(onp.array([h**i / math.factorial(i) for i in range(q + 1)]), d)


def mean_err(mean, mref, q, d, h):
    """max |m - m_ref| in Nordsieck coordinates m_k h^k / k!, relative to the largest scaled coefficient."""
    sc = nordsieck_scales(q, d, h)
    nm = onp.max(onp.abs(mref) * sc) + 1e-300
    return float(onp.max(onp.abs(onp.asarray(mean) - mref) * sc) / nm)


def floored_sd(Pscale, nordsieck=None, floor=1e-12):
    """Yardstick standard deviations: sqrt(diag(Pscale)), with variances floored at `floor` times the largest
    variance in Nordsieck coordinates when (q, d, h) is given.  A variance ten orders of magnitude below the
    others (the solution value right after an exact initial state, an exactly observed derivative) carries
    only rounding noise and must not be used as a yardstick."""
    v = onp.abs(onp.diag(Pscale)).astype(float)
    if nordsieck is not None and v.size:
        q, d, h = nordsieck
        sc = nordsieck_scales(q, d, h)
        if sc.shape == v.shape:
            vmax = onp.max(v * sc * sc)
            v = onp.maximum(v, floor * vmax / (sc * sc))
    return onp.sqrt(v) + 1e-300


def cov_err(cov, Pref, Pscale, nordsieck=None):
    """entrywise error relative to sqrt(Pscale_ii Pscale_jj) (Pscale: reference predicted covariance)."""
    sd = floored_sd(Pscale, nordsieck)
    with onp.errstate(all="ignore"):
        return float(onp.nanmax(onp.abs(onp.asarray(cov) - Pref) / onp.outer(sd, sd)))


def cross_err(C, Cref, Pscale_i, Pscale_j, nordsieck=None):
    si, sj = floored_sd(Pscale_i, nordsieck), floored_sd(Pscale_j, nordsieck)
    return float(onp.max(onp.abs(onp.asarray(C) - Cref) / onp.outer(si, sj)))


def scale_tol(kappa):
    return 1e-8 + 1e3 * EPS * kappa


def ill_conditioned(kappa):
    return 1e3 * EPS * kappa > 1e-2


def self_cov_err(P, Pref, q, d, h, floor=1e-12):
    """Entrywise |P - Pref| relative to sqrt(v_i v_j), v = diag(Pref) floored at `floor` times the
    largest variance in Nordsieck coordinates (variances that are mathematically zero -- e.g. an exactly
    observed derivative -- carry only rounding noise and must not be used as a yardstick)."""
    sc = nordsieck_scales(q, d, h)
    v = onp.abs(onp.diag(Pref))
    vmax = onp.max(v * sc * sc)
    v = onp.maximum(v, floor * vmax / (sc * sc))
    den = onp.sqrt(onp.outer(v, v)) + 1e-300
    return float(onp.max(onp.abs(onp.asarray(P) - Pref) / den))


def corr_cond(P):
    """Condition number of the correlation matrix of P (inf if a variance vanishes): square-root filters lose
    about eps * sqrt(cond) of relative accuracy per update, whatever the coordinates."""
    P = onp.asarray(P, dtype=float)
    v = onp.diag(P)
    if P.size == 0 or onp.any(v <= 0) or not onp.all(onp.isfinite(P)):
        return float("inf")
    sd = onp.sqrt(v)
    try:
        return float(onp.linalg.cond(P / onp.outer(sd, sd)))
    except onp.linalg.LinAlgError:
        return float("inf")


def cond_tol(base, kP, factor=1e3):
    return max(base, factor * EPS * math.sqrt(min(kP, 1e32)))
