"""Configuration swarm: one JSON-able dict describes problem + solver configuration; `build`
creates the real probdiffeq objects and the matching reference model from it."""

import math

import jax.numpy as jnp
import mpmath as mp
import numpy as onp
from probdiffeq import probdiffeq

from sim import refmodel
from sim.refmodel import Model, Poly, PriorExponential, PriorIWP, mpf

SSMS = ["dense", "isotropic", "blockdiag"]
CALIBS = ["none", "mle", "dynamic"]


def gen_poly(src, d, order, autonomous=None, decoupled=False, scalar_jac=False):
    """Mildly nonlinear polynomial right-hand side with bounded growth over short horizons.
    Inputs are the first `order` coefficients (u, and u' for second-order problems)."""
    nin = order * d
    terms = []
    if scalar_jac:
        # f_i = a * u_i + g_i(t): Jacobian is a multiple of the identity
        a = src.rounded("a", -1.0, -0.2)
        for i in range(d):
            es = [0] * nin
            es[i] = 1
            terms.append([[a, es, 0], [src.rounded("g", -0.5, 0.5), [0] * nin, src.choice("et", [0, 1])]])
        return Poly(d, order, terms)
    for i in range(d):
        ts = []
        es = [0] * nin
        es[i] = 1
        ts.append([src.rounded("c_lin", -1.0, -0.2), es, 0])
        es = [0] * nin
        if decoupled:
            es[i] = 2
        else:
            es[(i + 1) % nin] += 1
            es[i] += 1
        ts.append([src.rounded("c_quad", -0.5, 0.5), es, 0])
        if order == 2:
            es = [0] * nin
            es[d + i] = 1
            ts.append([src.rounded("c_damp", -0.6, 0.0), es, 0])
        et = 0 if autonomous else (src.choice("et", [0, 1]) if autonomous is None else 1)
        ts.append([src.rounded("c_force", 0.1, 0.5), [0] * nin, et])
        terms.append(ts)
    return Poly(d, order, terms)


def gen_config(src, *, ssm=None, calib=None, strategy=None, lin=None, qmax=8, dmax=3, orders=(1, 2), priors=("iwp",),
               inits=("exact", "inexact"), allow_damp=True, allow_constraint_init=True, decoupled=False,
               scalar_jac=False, lam_default=False, q=None, d=None):
    q_forced, d_forced = q, d
    ssm = ssm or src.choice("ssm", SSMS)
    calib = calib or src.choice("calib", CALIBS)
    strategy = strategy or src.choice("strategy", ["filter", "fixedpoint", "fixedinterval"])
    lin = lin or src.choice("lin", ["ts0", "ts1"])
    d = src.weighted("d", [(1, 2), (2, 3), (3, 2)][:dmax]) if d_forced is None else d_forced
    order = src.weighted("order", [(1, 3), (2, 1)]) if 2 in orders else 1
    qlo = order
    q = max(qlo, min(qmax, src.weighted("q", [(1, 2), (2, 4), (3, 4), (4, 3), (5, 2), (6, 1), (7, 1), (8, 1)])))
    if q_forced is not None:
        q = max(qlo, q_forced)
    prior = src.choice("prior", list(priors)) if ssm == "dense" else "iwp"
    if prior != "iwp":  # exponential priors: mp.expm of a 2(q+1)d block matrix per step size -- keep it small
        d = min(d, 2)
        q = max(qlo, min(q, 4))
    poly = gen_poly(src, d, order, decoupled=decoupled, scalar_jac=scalar_jac)
    init = src.choice("init", list(inits))
    diffuse = 0
    if init == "diffuse":
        room = q - order
        diffuse = src.randint("ndiffuse", 1, min(3, room)) if room >= 1 else 0
        if diffuse == 0:
            init = "inexact"
    exact_flags = None
    if init == "partial":  # some Taylor coefficients known exactly, others not (rank-deficient initial covariance)
        exact_flags = [src.flip("exact_k", 0.5) for _ in range(q + 1)]
        if all(exact_flags) or not any(exact_flags):
            exact_flags[src.randint("flip_k", 0, q)] ^= True
    if lam_default:
        lam = [1.0] * d
    else:
        lam = [2.0 ** src.randint("lam", -2, 2) for _ in range(d)]
        if ssm == "isotropic":
            lam = [lam[0]] * d
    cfg = {
        "ssm": ssm, "calib": calib, "strategy": strategy, "lin": lin, "q": q, "d": d, "order": order,
        "poly": poly.to_json(),
        "u0": [src.rounded("u0", 0.2, 1.0) for _ in range(d)],
        "du0": [src.rounded("du0", -0.5, 0.5) for _ in range(d)],
        "t0": src.choice("t0", [0.0, 0.0, src.rounded("t0", 0.0, 1.0)]),
        "lam": lam, "lam_default": bool(lam_default),
        "damp": (src.choice("damp", [0.0, 0.0, 1e-3, 1e-1]) if allow_damp else 0.0),
        "init": init, "exact_flags": exact_flags, "inexact_eps": src.choice("inexact_eps", [1e-2, 1e-3, 1e-6]),
        "diffuse_derivatives": diffuse, "diffuse_eps": src.choice("diffuse_eps", [1.0, 0.1]),
        "constraint_init": bool(allow_constraint_init and init == "inexact" and src.flip("cinit", 0.3)),
        "mle_correct": src.flip("mle_correct", 0.5), "relin": src.flip("relin", 0.5),
        "prior": prior,
        "prior_par": {"w": [[(src.rounded("w", -1.0, -0.1) if i == j else src.rounded("w", -0.3, 0.3)) for j in range(d)]
                            for i in range(d)], "length_scale": src.rounded("ls", 0.5, 3.0)},
    }
    return cfg


def cell_of(cfg):
    qb = "q<=2" if cfg["q"] <= 2 else ("q3-5" if cfg["q"] <= 5 else "q6-8")
    return f"{cfg['ssm']}|{cfg['calib']}|{cfg['strategy']}|{cfg['lin']}|{qb}|o{cfg['order']}|{cfg['prior']}|{cfg['init']}"


class Built:
    pass


def make_vf(poly, order, jacobian=None, log=None):
    """The user vector field (a seam: the simulator sees every evaluation).  Concrete evaluations
    are appended to `log` as (t, [u...]); traced ones (inside jacfwd / eval_shape / jit) are not."""
    import jax

    d = poly.d
    jac = jacobian if jacobian is not None else probdiffeq.jacobian_materialize()

    def record(xs, t):
        if log is not None and not any(isinstance(v, jax.core.Tracer) for v in list(xs) + [t]):
            log.append((float(t), [float(v) for v in xs]))

    if order == 1:
        def f1(y, *, t):
            xs = [y[i] for i in range(d)]
            record(xs, t)
            return poly.eval_jnp(xs, t)

        return probdiffeq.ode(f1, jacobian=jac)

    def f2(y, dy, *, t):
        xs = [y[i] for i in range(d)] + [dy[i] for i in range(d)]
        record(xs, t)
        return poly.eval_jnp(xs, t)

    return probdiffeq.ode_order_two(f2, jacobian=jac)


def make_strategy(name):
    return {"filter": probdiffeq.strategy_filter, "fixedpoint": probdiffeq.strategy_smoother_fixedpoint,
            "fixedinterval": probdiffeq.strategy_smoother_fixedinterval}[name]()


def build(cfg, *, strategy=None, calib=None, ssm=None, lam=None, with_ref=True):
    """Real objects + reference model for a configuration (keyword overrides create replicas)."""
    cfg = dict(cfg)
    if strategy:
        cfg["strategy"] = strategy
    if calib:
        cfg["calib"] = calib
    if ssm:
        cfg["ssm"] = ssm
    if lam is not None:
        cfg["lam"] = list(lam)
    b = Built()
    b.cfg = cfg
    q, d, order = cfg["q"], cfg["d"], cfg["order"]
    poly = Poly.from_json(cfg["poly"])
    b.poly = poly
    b.vf_log = []
    b.vf = make_vf(poly, order, log=b.vf_log)
    u0 = jnp.asarray(cfg["u0"], dtype=float)
    inits = (u0,) if order == 1 else (u0, jnp.asarray(cfg["du0"], dtype=float))
    t0 = cfg["t0"]
    k = cfg["diffuse_derivatives"]
    num = q + 1 - order - k
    tc, _ = probdiffeq.jetexpand_ode_unroll(num=num)(b.vf, inits, t=t0)
    assert len(tc) == q + 1 - k, (len(tc), q, k)
    b.tcoeffs = tc
    b.ssm = getattr(probdiffeq, "state_space_model_" + cfg["ssm"])()
    lamv = cfg["lam"]
    if cfg.get("lam_default"):
        os_ = None
    elif cfg["ssm"] == "isotropic":
        os_ = jnp.asarray(lamv[0], dtype=float)
    else:
        os_ = jnp.asarray(lamv, dtype=float)
    kw = dict(is_exact=(cfg["init"] == "exact"), inexact_eps=cfg["inexact_eps"], diffuse_derivatives=k,
              diffuse_eps=cfg["diffuse_eps"], output_scale=os_)
    if cfg["init"] == "diffuse":
        kw["is_exact"] = True
    if cfg["init"] == "partial":
        flags = cfg["exact_flags"]
        if cfg["ssm"] == "isotropic":
            kw["is_exact"] = [jnp.asarray(bool(f)) for f in flags]
        else:
            kw["is_exact"] = [jnp.full((d,), bool(f)) for f in flags]
    pk = cfg["prior"]
    W = cfg["prior_par"]["w"]
    ls = cfg["prior_par"]["length_scale"]
    if pk == "iwp":
        b.prior = b.ssm.prior_wiener_integrated(tc, **kw)
    elif pk == "ioup":
        Wj = jnp.asarray(W, dtype=float)
        b.prior = b.ssm.prior_ornstein_uhlenbeck_integrated(lambda x: Wj @ x, tc, **kw)
    elif pk == "matern":
        b.prior = b.ssm.prior_matern(ls, tc, **kw)
    else:
        raise ValueError(pk)
    if cfg["lin"] == "ts0":
        b.constraint = b.ssm.constraint_ode_ts0(b.vf)
    else:
        b.constraint = b.ssm.constraint_ode_ts1(b.vf)
    b.constraint_init = b.ssm.constraint_ode_ts1(b.vf) if cfg["constraint_init"] else None
    b.strategy = make_strategy(cfg["strategy"])
    if cfg["calib"] == "none":
        b.solver = probdiffeq.solver(strategy=b.strategy, constraint=b.constraint, constraint_init=b.constraint_init)
    elif cfg["calib"] == "mle":
        b.solver = probdiffeq.solver_mle(strategy=b.strategy, constraint=b.constraint, constraint_init=b.constraint_init,
                                         correct_asymptotic_underconfidence=cfg["mle_correct"])
    else:
        b.solver = probdiffeq.solver_dynamic(strategy=b.strategy, constraint=b.constraint,
                                             constraint_init=b.constraint_init,
                                             re_linearize_after_calibration=cfg["relin"])
    b.t0 = t0
    if not with_ref:
        return b
    # ---- reference model
    n = q + 1
    if pk == "iwp":
        rp = PriorIWP(q, d, lamv)
    else:
        bottom = [[0.0] * (n * d) for _ in range(d)]
        if pk == "ioup":
            for i in range(d):
                for j in range(d):
                    bottom[i][q * d + j] = W[i][j]
        else:
            D = n
            z = math.sqrt(2 * (D - 0.5)) / ls
            for c in range(n):
                for i in range(d):
                    bottom[i][c * d + i] = -math.comb(D, c) * z ** (D - c)
        rp = PriorExponential(q, d, lamv, bottom)
    b.model = Model(rp, poly, cfg["lin"], cfg["ssm"], cfg["calib"], damp=cfg["damp"], relin=cfg["relin"],
                    mle_correct=cfg["mle_correct"])
    m0 = [mpf(float(v)) for x in tc for v in onp.asarray(x).reshape(-1)] + [mpf(0)] * (k * d)
    std = []
    for c in range(n):
        if c >= n - k:
            s = cfg["diffuse_eps"]
        elif cfg["init"] == "inexact" or (cfg["init"] == "partial" and not cfg["exact_flags"][c]):
            s = cfg["inexact_eps"]
        else:
            s = 0.0
        std += [s] * d
    b.m0 = mp.matrix(m0)
    b.P0 = refmodel.diag([mpf(s) ** 2 for s in std])
    b.t0 = t0
    b.init_term2 = None
    if cfg["constraint_init"]:
        mi = Model(rp, poly, "ts1", cfg["ssm"], cfg["calib"], damp=cfg["damp"])
        up = mi.update(b.m0, b.P0, mpf(t0), pinv=True)
        b.init_update = up
        b.m0, b.P0 = up["m"], up["P"]
        if cfg["calib"] == "mle":
            b.init_term2 = mi.white2(up["r"], up["S"])
    return b


def ref_history(b, hs):
    return b.model.run(b.m0, b.P0, b.t0, hs, init_term2=b.init_term2)
