"""Dense embeddings of the library's Normal / LatentCond objects of all three factorisations,
built from their *fields* (mean_flat, cholesky_flat, A, noise, to_latent, to_observed) by the
documented Kronecker / per-dimension structure -- never through library methods.

Coordinates are coefficient-major (all dimensions of coefficient 0, then coefficient 1, ...),
which is the ordering of `to_multivariate_normal()` in all three factorisations.
"""

import mpmath as mp
import numpy as onp


def kind(obj):
    n = type(obj).__name__
    if n.startswith("Dense"):
        return "dense"
    if n.startswith("Isotropic"):
        return "isotropic"
    if n.startswith("BlockDiag"):
        return "blockdiag"
    raise TypeError(n)


def normal_np(rv):
    """(mean, cov) as float64 arrays."""
    k = kind(rv)
    m = onp.asarray(rv.mean_flat, dtype=float)
    L = onp.asarray(rv.cholesky_flat, dtype=float)
    if k == "dense":
        return m, L @ L.T
    if k == "isotropic":
        n, d = m.shape
        C = L @ L.T
        return m.reshape(-1), onp.kron(C, onp.eye(d))
    d, n = m.shape
    P = onp.zeros((n * d, n * d))
    for i in range(d):
        C = L[i] @ L[i].T
        for a in range(n):
            for b in range(n):
                P[a * d + i, b * d + i] = C[a, b]
    return m.T.reshape(-1), P


def _mpm(a):
    a = onp.asarray(a, dtype=float)
    if a.ndim == 1:
        return mp.matrix([mp.mpf(float(x)) for x in a])
    return mp.matrix([[mp.mpf(float(x)) for x in row] for row in a])


def normal_mp(rv):
    """(mean, cov) in mp; the covariance L L^T is formed exactly from the float factor."""
    k = kind(rv)
    m = onp.asarray(rv.mean_flat, dtype=float)
    L = onp.asarray(rv.cholesky_flat, dtype=float)
    if k == "dense":
        Lm = _mpm(L)
        return _mpm(m), Lm * Lm.T
    if k == "isotropic":
        n, d = m.shape
        Lm = _mpm(L)
        C = Lm * Lm.T
        P = mp.zeros(n * d)
        for a in range(n):
            for b in range(n):
                for i in range(d):
                    P[a * d + i, b * d + i] = C[a, b]
        return _mpm(m.reshape(-1)), P
    d, n = m.shape
    P = mp.zeros(n * d)
    for i in range(d):
        Lm = _mpm(L[i])
        C = Lm * Lm.T
        for a in range(n):
            for b in range(n):
                P[a * d + i, b * d + i] = C[a, b]
    return _mpm(m.T.reshape(-1)), P


def cond_np(c):
    """(A, b, Q): y | x ~ N(A x + b, Q), preconditioner removed, coefficient-major."""
    k = kind(c)
    A = onp.asarray(c.A, dtype=float)
    tl = onp.asarray(c.to_latent, dtype=float)
    to = onp.asarray(c.to_observed, dtype=float)
    nm = onp.asarray(c.noise.mean_flat, dtype=float)
    nL = onp.asarray(c.noise.cholesky_flat, dtype=float)
    if k == "dense":
        Af = to[:, None] * A * tl[None, :]
        Lq = onp.abs(to[:, None]) * nL
        return Af, to * nm, Lq @ Lq.T
    if k == "isotropic":
        d = nm.shape[1]
        Af = to[:, None] * A * tl[None, :]
        Lq = onp.abs(to[:, None]) * nL
        return onp.kron(Af, onp.eye(d)), (to[:, None] * nm).reshape(-1), onp.kron(Lq @ Lq.T, onp.eye(d))
    d, no, ni = A.shape
    Af = onp.zeros((no * d, ni * d))
    Q = onp.zeros((no * d, no * d))
    b = onp.zeros(no * d)
    for i in range(d):
        Ai = to[i][:, None] * A[i] * tl[i][None, :]
        Li = onp.abs(to[i][:, None]) * nL[i]
        Qi = Li @ Li.T
        for a in range(no):
            b[a * d + i] = to[i][a] * nm[i][a]
            for c_ in range(ni):
                Af[a * d + i, c_ * d + i] = Ai[a, c_]
            for c_ in range(no):
                Q[a * d + i, c_ * d + i] = Qi[a, c_]
    return Af, b, Q


def cond_mp(c):
    """(A, b, Q) as cond_np, with every product (scalings, L L^T) formed in mp from the float arrays."""
    k = kind(c)
    A = onp.asarray(c.A, dtype=float)
    tl = onp.asarray(c.to_latent, dtype=float)
    to = onp.asarray(c.to_observed, dtype=float)
    nm = onp.asarray(c.noise.mean_flat, dtype=float)
    nL = onp.asarray(c.noise.cholesky_flat, dtype=float)
    f = lambda x: mp.mpf(float(x))

    def block(A_, to_, tl_, nL_):
        no, ni = A_.shape
        Am = mp.matrix(no, ni)
        for a in range(no):
            for b_ in range(ni):
                Am[a, b_] = f(to_[a]) * f(A_[a, b_]) * f(tl_[b_])
        Lm = mp.matrix(no, nL_.shape[1])
        for a in range(no):
            for b_ in range(nL_.shape[1]):
                Lm[a, b_] = f(to_[a]) * f(nL_[a, b_])
        return Am, Lm * Lm.T

    if k == "dense":
        Am, Q = block(A, to, tl, nL)
        return Am, mp.matrix([f(t) * f(x) for t, x in zip(to, nm)]), Q
    if k == "isotropic":
        d = nm.shape[1]
        Ab, Qb = block(A, to, tl, nL)
        no, ni = A.shape
        Af, Q, b = mp.zeros(no * d, ni * d), mp.zeros(no * d), mp.zeros(no * d, 1)
        for i in range(d):
            for a in range(no):
                b[a * d + i] = f(to[a]) * f(nm[a, i])
                for c_ in range(ni):
                    Af[a * d + i, c_ * d + i] = Ab[a, c_]
                for c_ in range(no):
                    Q[a * d + i, c_ * d + i] = Qb[a, c_]
        return Af, b, Q
    d, no, ni = A.shape
    Af, Q, b = mp.zeros(no * d, ni * d), mp.zeros(no * d), mp.zeros(no * d, 1)
    for i in range(d):
        Ab, Qb = block(A[i], to[i], tl[i], nL[i])
        for a in range(no):
            b[a * d + i] = f(to[i][a]) * f(nm[i][a])
            for c_ in range(ni):
                Af[a * d + i, c_ * d + i] = Ab[a, c_]
            for c_ in range(no):
                Q[a * d + i, c_ * d + i] = Qb[a, c_]
    return Af, b, Q


def index_tree(x, i):
    import jax.tree_util as tu

    return tu.tree_map(lambda a: a[i], x)


def to_np(M):
    return onp.array([[float(M[i, j]) for j in range(M.cols)] for i in range(M.rows)])


def vec_np(v):
    return onp.array([float(x) for x in v])


class _View:
    """Field-level view of one time slice of a batched Normal (no library methods involved)."""

    def __init__(self, rv, i):
        self.mean_flat = rv.mean_flat[i]
        self.cholesky_flat = rv.cholesky_flat[i]
        self._k = kind(rv)


def _kind_patch(obj):
    return getattr(obj, "_k", None)


_kind_orig = kind


def kind(obj):  # noqa: F811
    k = _kind_patch(obj)
    return k if k is not None else _kind_orig(obj)


def normal_np_at(rv, i):
    return normal_np(_View(rv, i))


def normal_mp_at(rv, i):
    return normal_mp(_View(rv, i))
