"""Process environment for every simulated run.

Must be imported before jax.  Fixes everything that could make a run depend on
the machine: hash seed (re-exec), thread counts, platform, x64.
"""

import os
import sys

VERIF = os.path.dirname(os.path.dirname(os.path.abspath(__file__)))
REPO = os.environ.get("VERIF_REPO", "/repo")
DEPS = os.path.join(VERIF, ".deps")

_FIXED = {
    "PYTHONHASHSEED": "0",
    "JAX_PLATFORMS": "cpu",
    "JAX_ENABLE_X64": "1",
    "OMP_NUM_THREADS": "1",
    "OPENBLAS_NUM_THREADS": "1",
    "MKL_NUM_THREADS": "1",
    "XLA_FLAGS": "--xla_cpu_multi_thread_eigen=false intra_op_parallelism_threads=1",
    "PYTHONDONTWRITEBYTECODE": "1",
    "JAX_COMPILATION_CACHE_DIR": "",
}


def child_env(**extra):
    env = dict(os.environ)
    env.update(_FIXED)
    if "VERIF_HASHSEED" in os.environ:  # determinism self-test varies it on purpose
        env["PYTHONHASHSEED"] = os.environ["VERIF_HASHSEED"]
    pp = [VERIF, REPO, DEPS]
    env["PYTHONPATH"] = os.pathsep.join(pp)
    env.update({k: str(v) for k, v in extra.items()})
    return env


def setup_paths():
    for p in (DEPS, REPO, VERIF):
        if p not in sys.path:
            sys.path.insert(0, p)


def setup_jax():
    """Configure jax for a worker process (idempotent)."""
    for k, v in _FIXED.items():
        os.environ.setdefault(k, v)
    setup_paths()
    import jax

    jax.config.update("jax_enable_x64", True)
    jax.config.update("jax_platforms", "cpu")
    return jax
