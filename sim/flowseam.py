"""Stepped control-flow backend: the seam through which the simulator owns the loops.

`probdiffeq.backend.flow.{while_loop,scan,cond,switch,fori_loop}` are looked up at call
time by every call site in the library, so replacing the module attributes for the
duration of a run makes the real solver code run eagerly, one Python iteration per loop
iteration, with every state concrete.  Predicates that are tracers (the call sits inside
somebody's jit/vmap/eval_shape) fall through to the original lax primitive.
"""

import contextlib

import jax
import jax.numpy as jnp
import jax.tree_util as tu
from probdiffeq.backend import flow, func


class StepBudgetExceeded(RuntimeError):
    pass


_ORIG = dict(
    while_loop=flow.while_loop,
    scan=flow.scan,
    cond=flow.cond,
    switch=flow.switch,
    fori_loop=flow.fori_loop,
)
_ORIG_JIT = func.jit

_state = {"budget": 100_000, "iters": 0, "listener": None, "active": False}


def _is_tracer(x):
    return any(isinstance(leaf, jax.core.Tracer) for leaf in tu.tree_leaves(x))


def _emit(kind, **kw):
    lst = _state["listener"]
    if lst is not None:
        lst(kind, kw)


def py_while(cond_func, body_func, init):
    first = cond_func(init)
    if _is_tracer(first) or _is_tracer(init):
        return _ORIG["while_loop"](cond_func, body_func, init)
    s = init
    go = bool(first)
    n = 0
    while go:
        n += 1
        _state["iters"] += 1
        if _state["iters"] > _state["budget"]:
            raise StepBudgetExceeded(f"loop budget {_state['budget']} exceeded")
        s = body_func(s)
        go = bool(cond_func(s))
    _emit("while_done", n=n)
    return s


def py_scan(step_func, /, init, xs, *, reverse=False, length=None):
    if _is_tracer(init) or _is_tracer(xs):
        return _ORIG["scan"](step_func, init=init, xs=xs, reverse=reverse, length=length)
    leaves = tu.tree_leaves(xs)
    if leaves:
        n = leaves[0].shape[0]
    else:
        n = int(length)
    idx = range(n - 1, -1, -1) if reverse else range(n)
    carry = init
    ys = []
    for i in idx:
        x = tu.tree_map(lambda a: a[i], xs)
        carry, y = step_func(carry, x)
        ys.append(y)
    if reverse:
        ys = ys[::-1]
    if n == 0:
        # shape-only evaluation for empty scans
        return _ORIG["scan"](step_func, init=init, xs=xs, reverse=reverse, length=length)
    stacked = tu.tree_map(lambda *a: jnp.stack([jnp.asarray(v) for v in a]), *ys)
    return carry, stacked


def py_cond(pred, true_func, false_func, *operands):
    if _is_tracer(pred):
        return _ORIG["cond"](pred, true_func, false_func, *operands)
    return true_func(*operands) if bool(pred) else false_func(*operands)


def py_switch(index, options, args):
    if _is_tracer(index):
        return _ORIG["switch"](index, options, args)
    i = int(index)
    i = max(0, min(i, len(options) - 1))  # lax.switch clamps
    _emit("switch", index=i)
    return options[i](args)


def py_fori(lower, upper, step_func, /, init):
    if _is_tracer(lower) or _is_tracer(upper) or _is_tracer(init):
        return _ORIG["fori_loop"](lower, upper, step_func, init)
    s = init
    for i in range(int(lower), int(upper)):
        s = step_func(i, s)
    return s


def identity_jit(f, /, static_argnums=None, static_argnames=None):
    """`jit` of the stepped backend: runs f eagerly but, like jit, returns arrays (a Python int such
    as the initial num_steps=0 becomes a 0-d array, which is what callers of jitted code see)."""

    def wrapped(*a, **k):
        return tu.tree_map(jnp.asarray, f(*a, **k))

    return wrapped


@contextlib.contextmanager
def stepped(budget=100_000, listener=None):
    """Install the stepped backend for the duration of a simulated run."""
    assert not _state["active"], "stepped() is not re-entrant"
    _state.update(budget=budget, iters=0, listener=listener, active=True)
    flow.while_loop = py_while
    flow.scan = py_scan
    flow.cond = py_cond
    flow.switch = py_switch
    flow.fori_loop = py_fori
    func.jit = identity_jit
    try:
        yield _state
    finally:
        for k, v in _ORIG.items():
            setattr(flow, k, v)
        func.jit = _ORIG_JIT
        _state.update(listener=None, active=False)


def loop_iterations():
    return _state["iters"]


def is_pristine():
    return all(getattr(flow, k) is v for k, v in _ORIG.items()) and func.jit is _ORIG_JIT
