"""Event log of one simulated run, its digest and its abstract history string."""

import hashlib
import json
import math


def fhex(x):
    """Canonical, exact representation of a float for digests."""
    try:
        x = float(x)
    except (TypeError, ValueError):
        return repr(x)
    if math.isnan(x):
        return "nan"
    return x.hex()


def canon(v):
    if isinstance(v, bool) or v is None or isinstance(v, (int, str)):
        return v
    if isinstance(v, float):
        return fhex(v)
    if isinstance(v, (list, tuple)):
        return [canon(x) for x in v]
    if isinstance(v, dict):
        return {str(k): canon(v[k]) for k in sorted(v, key=str)}
    try:
        import numpy as onp

        a = onp.asarray(v)
        if a.ndim == 0:
            return canon(a.item())
        return [canon(x) for x in a.tolist()]
    except Exception:
        return repr(v)


class Recorder:
    """Globally sequence-numbered event log.  Logging never draws and never reads a clock."""

    def __init__(self):
        self.events = []
        self.abstract = []

    def emit(self, kind, /, **kw):
        self.events.append((len(self.events), kind, kw))

    def mark(self, ch):
        self.abstract.append(ch)

    def digest(self):
        h = hashlib.blake2b(digest_size=12)
        for seq, kind, kw in self.events:
            h.update(json.dumps([seq, kind, canon(kw)], sort_keys=True).encode())
        return h.hexdigest()

    def abstract_string(self):
        return "".join(self.abstract)

    def of_kind(self, kind):
        return [kw for _, k, kw in self.events if k == kind]

    def dump(self, limit=None):
        ev = self.events if limit is None else self.events[:limit]
        return [[seq, kind, canon(kw)] for seq, kind, kw in ev]


def digest_of(obj):
    h = hashlib.blake2b(digest_size=12)
    h.update(json.dumps(canon(obj), sort_keys=True).encode())
    return h.hexdigest()
