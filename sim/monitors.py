"""In-run invariant monitors (C08, C09): for the duration of a simulated run the methods of the three
LatentCond / Normal classes and the priors' transition() are wrapped; every executed operation
with concrete operands is recomputed with the dense formulas on the densely embedded operands."""

import contextlib
import math
import mpmath as mp

import jax
import jax.tree_util as tu
import numpy as onp
from probdiffeq._probdiffeq import ssm_impl_blockdiag, ssm_impl_dense, ssm_impl_isotropic

from sim import embed

COND_CLASSES = [ssm_impl_dense.DenseLatentCond, ssm_impl_isotropic.IsotropicLatentCond, ssm_impl_blockdiag.BlockDiagLatentCond]
NORMAL_CLASSES = [ssm_impl_dense.DenseNormal, ssm_impl_isotropic.IsotropicNormal, ssm_impl_blockdiag.BlockDiagNormal]


def _concrete(*objs):
    for o in objs:
        for leaf in tu.tree_leaves(o):
            if isinstance(leaf, jax.core.Tracer):
                return False
    return True


def _unbatched_normal(rv):
    k = embed.kind(rv)
    nd = onp.ndim(rv.mean_flat)
    return nd == (1 if k == "dense" else 2)


def _unbatched_cond(c):
    k = embed.kind(c)
    nd = onp.ndim(c.A)
    return nd == (3 if k == "blockdiag" else 2) and _unbatched_normal(c.noise)


def _mp(a):
    import mpmath as mp

    a = onp.asarray(a, dtype=float)
    if a.ndim == 1:
        return mp.matrix([mp.mpf(float(x)) for x in a])
    return mp.matrix([[mp.mpf(float(x)) for x in row] for row in a]) if a.size else mp.matrix(a.shape[0], a.shape[1] if a.ndim > 1 else 1)


def _np(M, vec=False):
    if vec:
        return onp.array([float(M[i]) for i in range(M.rows)])
    return onp.array([[float(M[i, j]) for j in range(M.cols)] for i in range(M.rows)]).reshape(M.rows, M.cols)


def quad(A, P, Q=None):
    """A P A^T (+ Q) evaluated in 50-digit arithmetic from the float operands (no cancellation noise)."""
    A_, P_ = _mp(A), _mp(P)
    R = A_ * P_ * A_.T
    if Q is not None:
        R = R + _mp(Q)
    return _np(R)


def affine(A, x, b=None):
    r = _mp(A) * _mp(x)
    if b is not None:
        r = r + _mp(b)
    return _np(r, vec=True)


def matmul(A, B):
    return _np(_mp(A) * _mp(B))


def rel_vec(a, ref, scale=None):
    a, ref = onp.asarray(a, dtype=float), onp.asarray(ref, dtype=float)
    s = (onp.max(onp.abs(ref)) if scale is None else scale) + 1e-300
    return float(onp.max(onp.abs(a - ref)) / s) if a.size else 0.0


def scale_vec(c, which="to_observed"):
    """The conditional's diagonal scaling embedded in coefficient-major coordinates.  The library computes
    in the scaled coordinates, so that is where its rounding is relative and where results are compared."""
    k = embed.kind(c)
    v = onp.abs(onp.asarray(getattr(c, which), dtype=float))
    if k == "dense":
        return v
    if k == "isotropic":
        d = c.noise.mean_flat.shape[1]
        return onp.repeat(v, d)
    d, n = v.shape
    return v.T.reshape(-1)


def rel_cov_scaled(P, Pref, s, floor=1e-10):
    S = onp.outer(s, s)
    return rel_cov(onp.asarray(P) / S, onp.asarray(Pref) / S, floor)


def rel_vec_scaled(a, ref, s, extra=0.0):
    a, ref = onp.asarray(a, dtype=float) / s, onp.asarray(ref, dtype=float) / s
    return float(onp.max(onp.abs(a - ref)) / (onp.max(onp.abs(ref)) + extra + 1e-300))


def bound_quad(A, P, Q=None):
    """Componentwise magnitude bound |A| |P| |A|^T + |Q|: rounding in any evaluation of A P A^T + Q is
    relative to this (standard forward error bound), however ill-scaled the coordinates are."""
    B = onp.abs(A) @ onp.abs(P) @ onp.abs(A).T
    if Q is not None:
        B = B + onp.abs(Q)
    return B


def err_cov_bound(Po, Pref, B, mean=None):
    d = onp.sqrt(onp.abs(onp.diag(B))) + 1e-150  # 1e-150^2 does not underflow: exact zeros compare as 0/tiny = 0
    if mean is not None:
        # a standard deviation below 1e-14 |mean| is not representable next to that mean: numerically zero
        d = onp.maximum(d, 1e-14 * onp.abs(onp.asarray(mean, dtype=float)))
    if not Pref.size:
        return 0.0
    if not (onp.all(onp.isfinite(onp.asarray(Po))) and onp.all(onp.isfinite(Pref))):
        return float("inf")
    return float(onp.max(onp.abs(onp.asarray(Po) - Pref) / onp.outer(d, d)))


def err_vec_bound(mo, mref, bnd):
    if not mref.size:
        return 0.0
    if not (onp.all(onp.isfinite(onp.asarray(mo))) and onp.all(onp.isfinite(mref))):
        return float("inf")
    return float(onp.max(onp.abs(onp.asarray(mo) - mref) / (bnd + 1e-150)))


def rel_cov(P, Pref, floor=1e-10):
    """Entrywise error relative to sqrt(v_i v_j), v = diag(Pref) floored at `floor` x the largest variance."""
    P, Pref = onp.asarray(P, dtype=float), onp.asarray(Pref, dtype=float)
    v = onp.abs(onp.diag(Pref))
    if v.size == 0 or onp.max(v) == 0:
        return float(onp.max(onp.abs(P))) if P.size else 0.0
    v = onp.maximum(v, floor * onp.max(v))
    return float(onp.max(onp.abs(P - Pref) / onp.sqrt(onp.outer(v, v))))


class AlgebraMonitor:
    """C08: Gaussian conditional algebra, checked operation by operation."""

    TOL = 1e-8

    def __init__(self):
        self.viol = []
        self.counts = {}
        self.worst = {}
        self.singular_reverts = 0
        self.nonunit_scalings = 0
        self._depth = 0

    def v(self, op, kind, msg):
        if len(self.viol) < 12:
            self.viol.append({"inv": "ALG-" + op, "msg": f"[{kind}] {op}: {msg}"})

    def note(self, op, kind, err):
        key = f"{kind}.{op}"
        self.counts[key] = self.counts.get(key, 0) + 1
        self.worst[key] = max(self.worst.get(key, 0.0), err)

    # ---- LatentCond
    def check_marginalise(self, c, rv, out):
        A, b, Q = embed.cond_np(c)
        m, P = embed.normal_np(rv)
        mo, Po = embed.normal_np(out)
        mref, Pref = affine(A, m, b), quad(A, P, Q)
        B = bound_quad(A, P, Q)
        bm = onp.abs(A) @ onp.abs(m) + onp.abs(b) + onp.sqrt(onp.abs(onp.diag(B)))
        e = max(err_vec_bound(mo, mref, bm), err_cov_bound(Po, Pref, B))
        self.note("marginalise", embed.kind(c), e)
        if e > self.TOL:
            self.v("marginalise", embed.kind(c), f"result differs from N(A m + b, A P A^T + Q): {e:.2e} (relative to |A||P||A|^T + |Q|)")

    def check_apply_flat(self, c, x, out):
        A, b, Q = embed.cond_np(c)
        k = embed.kind(c)
        xx = onp.asarray(x, dtype=float)
        xf = xx if k == "dense" else (xx.reshape(-1) if k == "isotropic" else xx.T.reshape(-1))
        mo, Po = embed.normal_np(out)
        mref = affine(A, xf, b)
        bm = onp.abs(A) @ onp.abs(xf) + onp.abs(b)
        e = max(err_vec_bound(mo, mref, bm), err_cov_bound(Po, Q, onp.abs(Q)))
        self.note("apply_flat", k, e)
        if not onp.allclose(onp.asarray(c.to_observed, dtype=float), 1.0):
            self.nonunit_scalings += 1
        if e > self.TOL:
            self.v("apply_flat", k, f"result differs from N(A x + b, Q): {e:.2e}")

    def check_merge(self, c1, c2, out):
        A1, b1, Q1 = embed.cond_np(c1)
        A2, b2, Q2 = embed.cond_np(c2)
        Ao, bo, Qo = embed.cond_np(out)
        Aref, bref, Qref = matmul(A1, A2), affine(A1, b2, b1), quad(A1, Q2, Q1)
        sA = onp.abs(A1) @ onp.abs(A2) + 1e-300
        eA = float(onp.max(onp.abs(Ao - Aref) / onp.maximum(sA, 1e-14 * onp.max(sA))))
        B = bound_quad(A1, Q2, Q1)
        e = max(eA, err_vec_bound(bo, bref, onp.abs(A1) @ onp.abs(b2) + onp.abs(b1) + onp.sqrt(onp.abs(onp.diag(B)))), err_cov_bound(Qo, Qref, B))
        self.note("merge", embed.kind(c1), e)
        if e > self.TOL:
            self.v("merge", embed.kind(c1), f"composition differs from (A1 A2, A1 b2 + b1, A1 Q2 A1^T + Q1): {e:.2e}")

    def check_revert(self, c, rv, out):
        observed, back = out
        A, b, Q = embed.cond_np(c)
        m, P = embed.normal_np(rv)
        my, Py = embed.normal_np(observed)
        G, g, Qb = embed.cond_np(back)
        k = embed.kind(c)
        myref, Pyref = affine(A, m, b), quad(A, P, Q)
        By = bound_quad(A, P, Q)
        e1 = max(err_vec_bound(my, myref, onp.abs(A) @ onp.abs(m) + onp.abs(b) + onp.sqrt(onp.abs(onp.diag(By)))), err_cov_bound(Py, Pyref, By))
        # joint law of (x, y): Cov(x, y) = P A^T = G P_y ; E x = G m_y + g ; Cov x = G P_y G^T + Q_b
        Cxy_ref = matmul(P, A.T)
        # Cauchy-Schwarz scale of a cross-covariance entry: sqrt(Var x_i Var y_j)
        vx = onp.maximum(onp.abs(onp.diag(P)) + onp.abs(onp.diag(quad(G, Py, Qb))), (1e-14 * onp.abs(m)) ** 2)
        vy = onp.maximum(onp.abs(onp.diag(By)), (1e-14 * onp.abs(myref)) ** 2)
        sxy = onp.sqrt(onp.outer(vx, vy)) + 1e-300
        e2 = float(onp.max(onp.abs(matmul(G, Py) - Cxy_ref) / sxy)) if sxy.size else 0.0
        mx_rec = affine(G, my, g)
        Bx = bound_quad(G, Py, Qb) + onp.abs(P)
        e3 = err_vec_bound(mx_rec, m, onp.abs(G) @ onp.abs(my) + onp.abs(g) + onp.abs(m) + onp.sqrt(onp.abs(onp.diag(Bx))))
        Px_rec = quad(G, Py, Qb)
        e4 = err_cov_bound(Px_rec, P, Bx, mean=m)
        # the gain solves with the (scaled) innovation covariance: its rounding is proportional to that condition number
        dy = onp.sqrt(onp.abs(onp.diag(Pyref)))
        try:
            kc = float(onp.linalg.cond(Pyref / onp.outer(dy, dy))) if onp.all(dy > 0) and onp.all(onp.isfinite(Pyref)) else float("inf")
        except onp.linalg.LinAlgError:
            kc = float("inf")
        # cancellation gate: if the exact innovation variances are many orders below the magnitudes they are
        # computed from (|A||P||A|^T + |Q|), not even their leading digits are determined by the float operands
        with onp.errstate(all="ignore"):
            canc = float(onp.max(onp.abs(onp.diag(By)) / onp.maximum(onp.abs(onp.diag(Pyref)), 1e-300))) if Pyref.size else 1.0
        gains_finite = bool(onp.all(onp.isfinite(G)) and onp.all(onp.isfinite(g)) and onp.all(onp.isfinite(Qb)))
        if not math.isfinite(kc) or kc > 1e6 or canc > 1e6 or (not gains_finite and not math.isfinite(kc)):
            self.counts["revert_gain_check_skipped_ill_conditioned"] = self.counts.get("revert_gain_check_skipped_ill_conditioned", 0) + 1
            e2 = e3 = e4 = 0.0  # only the marginal of y is decidable when the innovation covariance is (numerically) singular
        else:
            e2, e3 = e2 / max(1.0, kc), e3 / max(1.0, kc)
        e = max(e1, e2, e3, e4)
        self.note("revert", k, e)
        try:
            ev = onp.linalg.eigvalsh((P + P.T) / 2) if P.size and onp.all(onp.isfinite(P)) else onp.array([1.0])
        except onp.linalg.LinAlgError:
            ev = onp.array([0.0, 1.0])
        if ev.size and onp.min(ev) <= 1e-14 * max(onp.max(ev), 1e-300):
            self.singular_reverts += 1
        if e > 10 * self.TOL:
            self.v("revert", k, f"(marginal of y, x | y) does not reproduce the joint law of (x, y): marginal {e1:.1e}, cross-covariance {e2:.1e}, mean {e3:.1e}, covariance {e4:.1e}")

    def check_precon(self, c, out):
        A, b, Q = embed.cond_np(c)
        Ao, bo, Qo = embed.cond_np(out)
        unit = onp.allclose(onp.asarray(out.to_latent, dtype=float), 1.0) and onp.allclose(onp.asarray(out.to_observed, dtype=float), 1.0)
        e = max(rel_vec(Ao, A), rel_vec(bo, b, onp.max(onp.abs(b)) + 1e-300) if onp.max(onp.abs(b)) > 0 else float(onp.max(onp.abs(bo))), rel_cov(Qo, Q))
        self.note("preconditioner_apply", embed.kind(c), e)
        if e > self.TOL or not unit:
            self.v("preconditioner_apply", embed.kind(c), f"removing the scalings changed the conditional ({e:.2e}) or left non-unit scalings")

    # ---- Normal
    def check_rescale(self, rv, factor, out):
        m, P = embed.normal_np(rv)
        mo, Po = embed.normal_np(out)
        k = embed.kind(rv)
        f = onp.asarray(factor, dtype=float)
        if k == "blockdiag" and f.ndim == 1:
            n = rv.mean_flat.shape[1]
            v = onp.tile(f, n)
        else:
            v = onp.ones(m.shape[0]) * float(f.reshape(-1)[0]) if f.size == 1 else None
        if v is None:
            return
        Pref = P * onp.outer(v, v)
        e = max(rel_vec(mo, m, onp.max(onp.abs(m)) + 1e-300), rel_cov(Po, Pref))
        self.note("rescale_cholesky", k, e)
        if e > self.TOL:
            self.v("rescale_cholesky", k, f"covariance is not multiplied by factor^2: {e:.2e}")

    def check_logpdf(self, rv, u, out):
        """Reference in 50 digits from the float factor itself (P = L L^T formed exactly): float64 arithmetic on P
        loses the log-determinant as soon as cond(P) approaches 1e16, while the library's QR of the factor does not
        (observed: library = 50-digit value to 16 digits where a float64 Cholesky of P was 5e-7 off)."""
        k = embed.kind(rv)
        m, P = embed.normal_mp(rv)
        uu = onp.asarray(u, dtype=float)
        uf = uu if k == "dense" else (uu.reshape(-1) if k == "isotropic" else uu.T.reshape(-1))
        n = m.rows
        if uf.shape != (n,):
            return
        if not onp.all(onp.isfinite(uf)) or not onp.all(onp.isfinite(onp.asarray(rv.cholesky_flat, dtype=float))):
            return
        try:
            Lc = mp.cholesky(P)
        except (ValueError, ZeroDivisionError, TypeError):
            self.counts["logpdf_skipped_singular"] = self.counts.get("logpdf_skipped_singular", 0) + 1
            return
        # rounding of the library's route (QR of L^T, column j has norm sqrt(P_jj), pivot |R_jj| = Lc_jj):
        # log|R_jj| carries about eps sqrt(P_jj) / Lc_jj
        amp = [float(mp.sqrt(P[j, j]) / Lc[j, j]) if Lc[j, j] > 0 else float("inf") for j in range(n)]
        if not all(math.isfinite(a) for a in amp) or max(amp) > 1e12:
            # numerically singular covariance (exactly known coefficients): the density is not defined
            self.counts["logpdf_skipped_singular"] = self.counts.get("logpdf_skipped_singular", 0) + 1
            return
        r = mp.matrix([mp.mpf(float(a)) for a in uf]) - m
        w = mp.lu_solve(Lc, r) if any(x != 0 for x in r) else mp.zeros(n, 1)
        maha = sum(x * x for x in w)
        logdet = 2 * sum(mp.log(Lc[j, j]) for j in range(n))
        ref = float(-0.5 * (maha + logdet + n * mp.log(2 * mp.pi)))
        tol = 1e-10 * (1 + abs(ref)) + 1e3 * 2.2e-16 * (sum(amp) + max(amp) * float(maha))
        err = abs(float(out) - ref)
        self.note("logpdf", k, err / tol)
        if not (err <= tol):
            self.v("logpdf", k, f"log-density {float(out)!r} differs from the multivariate-normal definition {ref!r} (tolerance {tol:.1e}, "
                                f"pivot amplification {max(amp):.1e})")

    def check_std(self, rv, out):
        m, P = embed.normal_np(rv)
        k = embed.kind(rv)
        leaves = [onp.asarray(x, dtype=float) for x in tu.tree_leaves(out)]
        sd = onp.sqrt(onp.abs(onp.diag(P)))
        if k == "isotropic":
            n, d = rv.mean_flat.shape
            ref = sd.reshape(n, d)[:, 0]
            got = onp.concatenate([x.reshape(-1)[:1] for x in leaves]) if len(leaves) == n else None
        else:
            ref = sd
            got = onp.concatenate([x.reshape(-1) for x in leaves])
            if k == "blockdiag":
                d, n = rv.mean_flat.shape
                got = got if got.size != n * d else got  # leaves are per coefficient (d,), coefficient-major
        if got is None or got.shape != ref.shape:
            return
        e = rel_vec(got, ref, onp.max(ref) + 1e-300)
        self.note("std", k, e)
        if e > 1e-7:
            self.v("std", k, f"standard deviations differ from sqrt(diag(cov)): {e:.2e}")

    def check_mvn(self, rv, out):
        m, P = embed.normal_np(rv)
        e = max(rel_vec(out[0], m, onp.max(onp.abs(m)) + 1e-300), rel_cov(onp.asarray(out[1]), P))
        self.note("to_multivariate_normal", embed.kind(rv), e)
        if e > self.TOL:
            self.v("to_multivariate_normal", embed.kind(rv), f"dense conversion differs from the embedded fields: {e:.2e}")

    def check_rms(self, rv, u, out):
        m, P = embed.normal_np(rv)
        k = embed.kind(rv)
        uu = onp.asarray(u, dtype=float)
        uf = uu if k == "dense" else (uu.reshape(-1) if k == "isotropic" else uu.T.reshape(-1))
        if uf.shape != m.shape:
            return
        try:
            if k == "blockdiag":
                d, n = rv.mean_flat.shape
                ref = []
                for i in range(d):
                    idx = [a * d + i for a in range(n)]
                    Li = onp.linalg.cholesky(P[onp.ix_(idx, idx)])
                    w = onp.linalg.solve(Li, (uf - m)[idx])
                    ref.append(onp.sqrt(w @ w / n))
                ref = onp.array(ref)
            else:
                L = onp.linalg.cholesky(P)
                w = onp.linalg.solve(L, uf - m)
                ref = onp.array([onp.sqrt(w @ w / m.size)])
        except onp.linalg.LinAlgError:
            return
        got = onp.atleast_1d(onp.asarray(out, dtype=float))
        if got.shape != ref.shape:
            return
        # the whitened residual inherits the conditioning of the residual itself; compare loosely and only when it is not at rounding level
        scale_r = onp.max(onp.abs(uf - m)) / (onp.max(onp.abs(uf)) + onp.max(onp.abs(m)) + 1e-300)
        if scale_r < 1e-6:
            return
        e = rel_vec(got, ref, onp.max(onp.abs(ref)) + 1e-300)
        self.note("residual_whitened_rms", k, e)
        if e > 1e-6 / scale_r * 1e-6 + 1e-7:
            self.v("residual_whitened_rms", k, f"whitened residual norm differs from sqrt(r^T P^-1 r / n): {e:.2e}")


@contextlib.contextmanager
def algebra(mon):
    """Wrap the conditional / normal methods of all three factorisations."""
    saved = []

    def wrap(cls, name, checker, nargs):
        orig = getattr(cls, name)

        def wrapped(self, *a, **k):
            out = orig(self, *a, **k)
            if mon._depth == 0 and _concrete(self, a, out):
                # operands that are already non-finite (e.g. the state after the known dynamic-calibration zero-residual
                # step) make every result non-finite: nothing about the algebra can be decided from them
                if not all(onp.all(onp.isfinite(onp.asarray(x, dtype=float))) for x in tu.tree_leaves((self, a))
                           if hasattr(x, "dtype") or isinstance(x, (int, float))):
                    mon.counts["nonfinite_operands_skipped"] = mon.counts.get("nonfinite_operands_skipped", 0) + 1
                    return out
                mon._depth += 1
                try:
                    if cls in COND_CLASSES and _unbatched_cond(self):
                        if nargs == 0:
                            checker(self, out)
                        elif all((not hasattr(x, "mean_flat")) or _unbatched_normal(x) for x in a[:1]):
                            if not (hasattr(a[0], "A") and not _unbatched_cond(a[0])):
                                checker(self, a[0], out)
                    elif cls in NORMAL_CLASSES and _unbatched_normal(self):
                        if nargs == 0:
                            checker(self, out)
                        else:
                            checker(self, a[0], out)
                except Exception as e:  # noqa: BLE001 -- a monitor must never break the run
                    mon.counts["monitor_errors"] = mon.counts.get("monitor_errors", 0) + 1
                    mon.last_error = repr(e)
                finally:
                    mon._depth -= 1
            return out

        saved.append((cls, name, orig))
        setattr(cls, name, wrapped)

    for cls in COND_CLASSES:
        wrap(cls, "marginalise", mon.check_marginalise, 1)
        wrap(cls, "apply_flat", mon.check_apply_flat, 1)
        wrap(cls, "merge", mon.check_merge, 1)
        wrap(cls, "revert", mon.check_revert, 1)
        wrap(cls, "preconditioner_apply", mon.check_precon, 0)
    for cls in NORMAL_CLASSES:
        wrap(cls, "rescale_cholesky", mon.check_rescale, 1)
        wrap(cls, "logpdf_flat", mon.check_logpdf, 1)
        wrap(cls, "residual_whitened_rms_flat", mon.check_rms, 1)
        wrap(cls, "to_multivariate_normal", mon.check_mvn, 0)
    try:
        yield mon
    finally:
        for cls, name, orig in saved:
            setattr(cls, name, orig)


class TransitionMonitor:
    """C09: every prior.transition(dt, output_scale) of a run against the exact SDE discretisation."""

    def __init__(self, ref_prior, structure, d):
        self.ref = ref_prior
        self.structure = structure
        self.d = d
        self.viol = []
        self.calls = []
        self.worst = 0.0
        self.count = 0

    def check(self, prior, dt, output_scale, out):
        import mpmath as mp

        A, b, Q = embed.cond_np(out)
        s = onp.asarray(output_scale, dtype=float).reshape(-1)
        s2 = [mp.mpf(float(s[i % s.size])) ** 2 for i in range(self.d)]
        Ar, Qr = self.ref.transition(mp.mpf(float(dt)), s2)
        Ar, Qr = embed.to_np(Ar), embed.to_np(Qr)
        n = A.shape[0] // self.d
        h = abs(float(dt))
        sc = onp.repeat(onp.array([h**i / math.factorial(i) for i in range(n)]), self.d)
        # compare in Nordsieck coordinates (S A S^-1, S Q S): that is where the entries are O(1)
        As, Ars = A * onp.outer(sc, 1 / sc), Ar * onp.outer(sc, 1 / sc)
        eA = float(onp.max(onp.abs(As - Ars)) / (onp.max(onp.abs(Ars)) + 1e-300))
        eQ = rel_cov(Q * onp.outer(sc, sc), Qr * onp.outer(sc, sc), floor=1e-12)
        eb = float(onp.max(onp.abs(b)))
        e = max(eA, eQ)
        self.worst = max(self.worst, e)
        self.count += 1
        self.calls.append((float(dt), [float(x) for x in s]))
        if e > 1e-9 or eb > 0:
            if len(self.viol) < 8:
                self.viol.append({"inv": "SDE-transition", "msg": f"transition(dt={float(dt):.3g}, scale={s.tolist()}) differs from the exact discretisation: drift part {eA:.2e}, process noise {eQ:.2e}, offset {eb:.1e}"})


@contextlib.contextmanager
def transitions(mon, prior_obj):
    cls = type(prior_obj)
    orig = cls.transition

    def wrapped(self, *, dt, output_scale):
        out = orig(self, dt=dt, output_scale=output_scale)
        if _concrete(dt, output_scale, out) and onp.ndim(dt) == 0 and onp.ndim(self.init.mean_flat) == onp.ndim(prior_obj.init.mean_flat):
            try:
                mon.check(self, dt, output_scale, out)
            except Exception as e:  # noqa: BLE001
                mon.last_error = repr(e)
        return out

    cls.transition = wrapped
    try:
        yield mon
    finally:
        cls.transition = orig
