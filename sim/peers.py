"""Peers of the time-stepping loop owned by the simulator.

* history-forcing peers: a scripted ErrorEstimator + Control pair imposes a chosen sequence of
  (attempted sizes, accept/reject) on the REAL solver (Python version for stepped runs, pure-jnp
  version for compiled runs);
* recording / faulting proxies around the REAL estimator, controller and solver.
"""

import random

import jax.numpy as jnp
import numpy as onp


def acc_sizes(script):
    return [s[-1] for s in script]


class ForcedErr:
    """Accept iff the attempted size is <= the accepted size of the current step of the script."""

    def __init__(self, script, rec=None):
        self.acc = acc_sizes(script)
        self.rec = rec
        self.log = []

    def init_error(self):
        return ()

    def estimate_error_norm(self, state, previous, proposed, *, dt, atol, rtol, damp):
        k = int(previous.num_steps)
        ok = float(dt) <= self.acc[min(k, len(self.acc) - 1)] * (1 + 1e-12)
        self.log.append((float(previous.t), float(dt), bool(ok)))
        if self.rec is not None:
            self.rec.emit("attempt", step=k, t=float(previous.t), dt=float(dt), acc=bool(ok))
            self.rec.mark("A" if ok else "R")
        return jnp.asarray(2.0 if ok else 0.5), state


class ForcedCtrl:
    def __init__(self, script):
        self.script = script

    def init(self, dt, /):
        return (0, 0)

    def apply(self, dt, state, /, *, error_power):
        k, j = state
        if float(error_power) >= 1.0:
            k, j = k + 1, 0
        else:
            j += 1
        k2 = min(k, len(self.script) - 1)
        j2 = min(j, len(self.script[k2]) - 1)
        return jnp.asarray(self.script[k2][j2], dtype=float), (k, j)


class JForcedErr:
    """jnp twin of ForcedErr (runs under jit / vmap)."""

    def __init__(self, script):
        self.acc = jnp.asarray(acc_sizes(script), dtype=float)

    def init_error(self):
        return ()

    def estimate_error_norm(self, state, previous, proposed, *, dt, atol, rtol, damp):
        k = jnp.minimum(jnp.asarray(previous.num_steps, dtype=int), self.acc.shape[0] - 1)
        ok = dt <= self.acc[k] * (1 + 1e-12)
        return jnp.where(ok, 2.0, 0.5), state


class JForcedCtrl:
    def __init__(self, script):
        m = max(len(s) for s in script)
        self.tab = jnp.asarray([list(s) + [s[-1]] * (m - len(s)) for s in script], dtype=float)
        self.m = m

    def init(self, dt, /):
        return (jnp.asarray(0), jnp.asarray(0))

    def apply(self, dt, state, /, *, error_power):
        k, j = state
        acc = error_power >= 1.0
        k2 = jnp.where(acc, k + 1, k)
        j2 = jnp.where(acc, 0, j + 1)
        kk = jnp.minimum(k2, self.tab.shape[0] - 1)
        jj = jnp.minimum(j2, self.m - 1)
        return self.tab[kk, jj], (k2, j2)


def gen_script(src, nsteps, hb, max_ratio=3.3, p_reject=0.4, max_tries=2, rel_lo=0.3):
    """A forced history: per step a list of attempted sizes, only the last accepted."""
    script = []
    for _ in range(nsteps):
        acc = hb * src.uniform("acc", rel_lo, 1.0)
        ntry = src.randint("tries", 1, max_tries) if src.flip("rej", p_reject) else 0
        tries = sorted((acc * src.uniform("try", 1.5, 4.0) for _ in range(ntry)), reverse=True)
        script.append([float(x) for x in tries] + [float(acc)])
    script.append([float(hb)])
    return script


class RecErr:
    """Recording proxy around a real ErrorEstimator with fault F1 (spurious rejection)."""

    def __init__(self, inner, rec=None, fault=None):
        self.inner = inner
        self.rec = rec
        self.log = []  # (t, dt, error_power_seen_by_loop, error_power_true)
        self.fault = fault or {}
        self.rng = random.Random(self.fault.get("seed", 0))
        self.streak = 0
        self.fired = 0
        self.keep_states = False
        self.calls = []
        self.on_call = None
        self.recent = []  # sizes of the last accepted steps (fault-rate tuning)

    def init_error(self):
        return self.inner.init_error()

    def __getattr__(self, name):
        return getattr(self.inner, name)

    def estimate_error_norm(self, state, previous, proposed, *, dt, atol, rtol, damp):
        ep, st = self.inner.estimate_error_norm(state, previous=previous, proposed=proposed, dt=dt, atol=atol,
                                                rtol=rtol, damp=damp)
        true = float(ep)
        if self.keep_states:
            self.calls.append({"previous": previous, "proposed": proposed, "dt": float(dt), "atol": float(atol), "rtol": float(rtol),
                               "damp": float(damp), "ep": true})
        if self.on_call is not None:
            self.on_call()
        p = self.fault.get("p_reject", 0.0)
        out = ep
        # fault-rate tuning: spurious rejections must not drive the step size into a random walk towards zero
        # (a weakly growing controller plus a 20 % rejection rate has negative drift); only attempts that are
        # not already well below the recent accepted sizes are rejected spuriously
        healthy = (not self.recent) or float(dt) > 0.3 * max(self.recent)
        draw = self.rng.random() if p > 0 else 1.0
        if p > 0 and true >= 1.0 and healthy and self.streak < self.fault.get("max_burst", 2) and draw < p:
            out = jnp.asarray(self.fault.get("value", 0.7), dtype=float)
            self.fired += 1
        seen = float(out)
        if seen >= 1.0:
            self.recent = (self.recent + [float(dt)])[-8:]
        self.streak = self.streak + 1 if seen < 1.0 else 0
        self.log.append((float(previous.t), float(dt), seen, true))
        if self.rec is not None:
            self.rec.emit("attempt", t=float(previous.t), dt=float(dt), ep=seen, ep_true=true, acc=seen >= 1.0)
            self.rec.mark("A" if seen >= 1.0 else "R")
        return out, st


class RecCtrl:
    """Recording proxy around a real controller with fault F2 (proposal jitter inside the
    controller's admissible range)."""

    def __init__(self, inner, rec=None, fault=None):
        self.inner = inner
        self.rec = rec
        self.fault = fault or {}
        self.rng = random.Random(self.fault.get("seed", 0) + 1)
        self.fired = 0
        self.log = []

    def init(self, dt, /):
        return self.inner.init(dt)

    def apply(self, dt, state, /, *, error_power):
        out, st = self.inner.apply(dt, state, error_power=error_power)
        p = self.fault.get("p_jitter", 0.0)
        if p > 0 and self.rng.random() < p:
            lo = self.inner.factor_min * float(dt)
            shrunk = max(lo, float(out) * self.rng.uniform(0.5, 1.0))
            if float(error_power) < 1.0:
                shrunk = min(shrunk, float(dt) * 0.98)
            out = jnp.asarray(shrunk, dtype=float)
            self.fired += 1
        self.log.append((float(dt), float(error_power), float(out)))
        return out, st


class RecSolver:
    """Recording proxy around a real ProbabilisticSolver: every op with its pre- and post-state."""

    def __init__(self, inner, rec=None, keep_states=True):
        self.inner = inner
        self.rec = rec
        self.keep = keep_states
        self.ops = []  # dicts: op, pre, post, dt / t

    def __getattr__(self, name):
        return getattr(self.inner, name)

    def init(self, t, u, *, damp):
        s = self.inner.init(t=t, u=u, damp=damp)
        self.ops.append({"op": "init", "post": s, "t": float(t)})
        return s

    def step(self, state, *, dt, damp):
        s = self.inner.step(state=state, dt=dt, damp=damp)
        self.ops.append({"op": "step", "pre": state, "post": s, "dt": float(dt), "t": float(state.t)})
        return s

    def interpolate_fwd(self, *, t, interp_from, interp_to):
        r = self.inner.interpolate_fwd(t=t, interp_from=interp_from, interp_to=interp_to)
        self.ops.append({"op": "interp", "t": float(t), "from": interp_from, "to": interp_to, "res": r})
        if self.rec is not None:
            self.rec.emit("checkpoint", branch="beyond", t=float(t), t_from=float(interp_from.t), t_to=float(interp_to.t))
            self.rec.mark("b")
        return r

    def interpolate_fwd_at_t1(self, *, t, interp_from, interp_to):
        r = self.inner.interpolate_fwd_at_t1(t=t, interp_from=interp_from, interp_to=interp_to)
        self.ops.append({"op": "at_t1", "t": float(t), "from": interp_from, "to": interp_to, "res": r})
        if self.rec is not None:
            self.rec.emit("checkpoint", branch="at", t=float(t), t_from=float(interp_from.t), t_to=float(interp_to.t))
            self.rec.mark("a")
        return r

    def userfriendly_output(self, *, solution0, solution, solution1):
        return self.inner.userfriendly_output(solution0=solution0, solution=solution, solution1=solution1)

    def accepted_steps(self, err_log):
        """Accepted (t, dt) pairs given the estimator's log [(t, dt, ok/ep...)]."""
        return [(e[0], e[1]) for e in err_log if (e[2] is True or (not isinstance(e[2], bool) and e[2] >= 1.0))]
