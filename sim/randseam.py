"""Random-source seam: probdiffeq.backend.random.{normal, rademacher, split} are module attributes
looked up at call time, so the simulator can script every draw and log every key."""

import contextlib

import jax
import jax.numpy as jnp
import numpy as onp
from probdiffeq.backend import random as prandom

_ORIG = dict(normal=prandom.normal, rademacher=prandom.rademacher, split=prandom.split)


def key_id(key):
    try:
        if isinstance(key, jax.core.Tracer):
            return None
        return tuple(int(x) for x in onp.asarray(jax.random.key_data(key) if hasattr(key, "dtype") and jnp.issubdtype(key.dtype, jax.dtypes.prng_key) else key).reshape(-1))
    except Exception:
        return None


class Script:
    """normal(key, shape) returns script(call_index, shape) (default: zeros); every call is logged."""

    def __init__(self, normal_fn=None, rademacher_fn=None):
        self.normal_fn = normal_fn
        self.rademacher_fn = rademacher_fn
        self.normal_calls = []  # (key_id, shape)
        self.rademacher_calls = []
        self.split_calls = []

    def normal(self, key, /, shape, dtype=None):
        k = len(self.normal_calls)
        self.normal_calls.append((key_id(key), tuple(shape)))
        if self.normal_fn is None:
            return jnp.zeros(shape, dtype=dtype or float)
        return jnp.asarray(self.normal_fn(k, tuple(shape)), dtype=dtype or float)

    def rademacher(self, key, /, shape, dtype):
        k = len(self.rademacher_calls)
        self.rademacher_calls.append((key_id(key), tuple(shape)))
        if self.rademacher_fn is None:
            return _ORIG["rademacher"](key, shape=shape, dtype=dtype)
        return jnp.asarray(self.rademacher_fn(k, tuple(shape)), dtype=dtype)

    def split(self, key, num):
        out = _ORIG["split"](key, num=num)
        self.split_calls.append((key_id(key), int(num)))
        return out


@contextlib.contextmanager
def scripted(script):
    prandom.normal = script.normal
    prandom.rademacher = script.rademacher
    prandom.split = script.split
    try:
        yield script
    finally:
        prandom.normal = _ORIG["normal"]
        prandom.rademacher = _ORIG["rademacher"]
        prandom.split = _ORIG["split"]
