"""Executable reference model: a dense linear-Gaussian state-space model over stacked Taylor
coefficients (coefficient-major), in mpmath at 50 digits.  No square roots, no preconditioner,
no code shared with the library.  Everything the oracles of C01-C05, C07, C12-C14 compare the
real solver with is computed here from the *documented* model:

  prior        integrated Wiener process (closed form) or exponential priors (Van-Loan expm)
  constraint   TS0  H = E_k,        b = -f(m)
               TS1  H = E_k - J~,   b = -(f(m) - J~ m)  with J~ = J (dense), diag-blocks (block-
               diagonal), tr(J_j)/d * I (isotropic) -- the documented structure per factorisation
  damping      observation noise damp^2 I
  calibration  none / MLE (running mean of whitened squared residuals) / dynamic
"""

import mpmath as mp

mp.mp.dps = 50

mpf = mp.mpf


def zeros(r, c=None):
    return mp.zeros(r, c if c is not None else r)


def eye(n):
    return mp.eye(n)


def kron(a, b):
    r = mp.zeros(a.rows * b.rows, a.cols * b.cols)
    for i in range(a.rows):
        for j in range(a.cols):
            aij = a[i, j]
            if aij != 0:
                for k in range(b.rows):
                    for l in range(b.cols):
                        bkl = b[k, l]
                        if bkl != 0:
                            r[i * b.rows + k, j * b.cols + l] = aij * bkl
    return r


def diag(v):
    m = mp.zeros(len(v))
    for i, x in enumerate(v):
        m[i, i] = x
    return m


def tovec(xs):
    return mp.matrix([mpf(x) for x in xs])


def symm(P):
    return (P + P.T) / 2


def pinv_psd(S):
    """Pseudo-inverse of a symmetric positive semi-definite matrix (for the initial-constraint update)."""
    n = S.rows
    try:
        if abs(mp.det(S)) > mpf(10) ** (-40) * max(1, mp.mnorm(S, 1)) ** n:
            return mp.inverse(S)
    except (ZeroDivisionError, TypeError):  # TypeError: mpmath LU pivot search on an all-zero column
        pass
    E, Q = mp.eigsy(S)
    tol = max(abs(e) for e in E) * mpf(10) ** (-30) if n else 0
    R = mp.zeros(n)
    for k in range(n):
        if abs(E[k]) > tol:
            for i in range(n):
                for j in range(n):
                    R[i, j] += Q[i, k] * Q[j, k] / E[k]
    return R


class Poly:
    """Polynomial right-hand side f_i(x, t), x = the first `order` Taylor coefficients stacked
    coefficient-major.  terms[i] = [(c, exps over order*d inputs, power of t), ...]."""

    def __init__(self, d, order, terms):
        self.d, self.order = d, order
        self.terms = [[(float(c), tuple(int(e) for e in es), int(et)) for c, es, et in ts] for ts in terms]

    def eval_mp(self, xs, t):
        out = []
        for i in range(self.d):
            s = mpf(0)
            for c, es, et in self.terms[i]:
                v = mpf(c) * (t**et if et else 1)
                for x, e in zip(xs, es):
                    if e:
                        v *= x**e
                s += v
            out.append(s)
        return mp.matrix(out)

    def jac_mp(self, xs, t):
        J = mp.zeros(self.d, self.order * self.d)
        for i in range(self.d):
            for c, es, et in self.terms[i]:
                for j, ej in enumerate(es):
                    if ej == 0:
                        continue
                    v = mpf(c) * ej * (t**et if et else 1)
                    for jj, (x, e) in enumerate(zip(xs, es)):
                        ee = e - 1 if jj == j else e
                        if ee:
                            v *= x**ee
                    J[i, j] += v
        return J

    def eval_jnp(self, xs, t):
        import jax.numpy as jnp

        out = []
        for i in range(self.d):
            s = 0.0
            for c, es, et in self.terms[i]:
                v = c * (t**et if et else 1.0)
                for x, e in zip(xs, es):
                    if e:
                        v = v * x**e
                s = s + v
            out.append(s)
        return jnp.stack([jnp.asarray(o, dtype=float) * 1.0 for o in out])

    def eval_float(self, xs, t):
        out = []
        for i in range(self.d):
            s = 0.0
            for c, es, et in self.terms[i]:
                v = c * (t**et if et else 1.0)
                for x, e in zip(xs, es):
                    if e:
                        v = v * x**e
                s = s + v
            out.append(s)
        return out

    def to_json(self):
        return {"d": self.d, "order": self.order, "terms": [[[c, list(es), et] for c, es, et in ts] for ts in self.terms]}

    @classmethod
    def from_json(cls, j):
        return cls(j["d"], j["order"], j["terms"])


def iwp_1d(q, h):
    a = mp.zeros(q + 1)
    Q = mp.zeros(q + 1)
    for i in range(q + 1):
        for j in range(q + 1):
            if j >= i:
                a[i, j] = h ** (j - i) / mp.factorial(j - i)
            e = 2 * q + 1 - i - j
            Q[i, j] = h**e / (e * mp.factorial(q - i) * mp.factorial(q - j))
    return a, Q


class PriorIWP:
    def __init__(self, q, d, lam):
        self.q, self.d, self.lam = q, d, [mpf(x) for x in lam]
        self._cache = {}

    def transition(self, h, scale2):
        """scale2: d squared calibrated scales.  Returns (A, Q)."""
        h = mpf(h)
        if h not in self._cache:
            if len(self._cache) > 64:
                self._cache.clear()
            self._cache[h] = iwp_1d(self.q, h)
        a, Q = self._cache[h]
        L2 = diag([s * l * l for s, l in zip(scale2, self.lam)])
        return kron(a, eye(self.d)), kron(Q, L2)


class PriorExponential:
    """dx = F x dt + L dW with F = shift + bottom block rows `bottom` ((d) x (n*d)), L = e_n (x) Lambda."""

    def __init__(self, q, d, lam, bottom):
        self.q, self.d, self.lam = q, d, [mpf(x) for x in lam]
        n = q + 1
        F = mp.zeros(n * d)
        for i in range(q):
            for k in range(d):
                F[i * d + k, (i + 1) * d + k] = 1
        for k in range(d):
            for j in range(n * d):
                F[q * d + k, j] = mpf(bottom[k][j])
        self.F = F
        self._cache = {}

    def transition(self, h, scale2):
        h = mpf(h)
        n, d = self.q + 1, self.d
        N = n * d
        if h not in self._cache:
            if len(self._cache) > 32:
                self._cache.clear()
            # diagonal Lambda: one unit Gramian per dimension (Van Loan), combined linearly below
            parts = []
            for k in range(d):
                LLk = mp.zeros(N)
                LLk[self.q * d + k, self.q * d + k] = 1
                M = mp.zeros(2 * N)
                for i in range(N):
                    for j in range(N):
                        M[i, j] = self.F[i, j] * h
                        M[N + i, N + j] = -self.F[j, i] * h
                        M[i, N + j] = LLk[i, j] * h
                E = mp.expm(M)
                Phi = E[0:N, 0:N]
                G = E[0:N, N : 2 * N] * Phi.T
                parts.append(symm(G))
            self._cache[h] = (Phi, parts)
        Phi, parts = self._cache[h]
        Q = mp.zeros(N)
        for k in range(d):
            Q += parts[k] * (scale2[k] * self.lam[k] ** 2)
        return Phi, Q


def selector(k, n, d):
    E = mp.zeros(d, n * d)
    for i in range(d):
        E[i, k * d + i] = 1
    return E


def project_jac(J, order, d, structure):
    if structure == "dense":
        return J
    Jp = mp.zeros(J.rows, J.cols)
    for j in range(order):
        if structure == "blockdiag":
            for i in range(d):
                Jp[i, j * d + i] = J[i, j * d + i]
        elif structure == "isotropic":
            tr = sum(J[i, j * d + i] for i in range(d)) / d
            for i in range(d):
                Jp[i, j * d + i] = tr
    return Jp


class Model:
    def __init__(self, prior, poly, lin, structure, calib, damp=0, relin=False, mle_correct=True):
        self.prior, self.poly, self.lin, self.structure, self.calib = prior, poly, lin, structure, calib
        self.damp, self.relin, self.mle_correct = mpf(damp), relin, mle_correct
        self.n = prior.q + 1
        self.d = prior.d

    # -- linearised constraint  H x + b  at mean m, time t
    def linearise(self, m, t):
        n, d, k = self.n, self.d, self.poly.order
        xs = [m[i] for i in range(k * d)]
        f = self.poly.eval_mp(xs, t)
        Ek = selector(k, n, d)
        if self.lin == "ts0":
            return Ek, -f
        J = project_jac(self.poly.jac_mp(xs, t), k, d, self.structure)
        Jfull = mp.zeros(d, n * d)
        for i in range(d):
            for j in range(k * d):
                Jfull[i, j] = J[i, j]
        x = mp.matrix(xs)
        return Ek - Jfull, -(f - J * x)

    def white2(self, r, S):
        """Whitened squared residual normalised per the documented estimator: per dimension for the
        block-diagonal model, r^T S^-1 r / d otherwise (returned as a list of d equal numbers)."""
        d = self.d
        if self.structure == "blockdiag":
            return [r[i] ** 2 / S[i, i] for i in range(d)]
        v = (r.T * pinv_psd(S) * r)[0] / d
        return [v] * d

    def obs_noise(self):
        return self.damp**2 * eye(self.d)

    def update(self, m, P, t, pinv=False):
        """One Bayesian update on the linearised constraint at (m, P)."""
        H, b = self.linearise(m, t)
        S = symm(H * P * H.T + self.obs_noise())
        r = H * m + b
        Sinv = pinv_psd(S) if pinv else mp.inverse(S)
        K = P * H.T * Sinv
        mn = m - K * r
        Pn = symm(P - K * S * K.T)
        return dict(m=mn, P=Pn, r=r, S=S, H=H, b=b, K=K)

    def kappa(self, H, mpred, b, r):
        return float(max((abs((H * mpred)[i]) + abs(b[i])) / (abs(r[i]) + mpf(10) ** -300) for i in range(self.d)))

    def step(self, m, P, t, h):
        d = self.d
        one = [mpf(1)] * d
        h = mpf(h)
        t = mpf(t)
        if self.calib == "dynamic":
            A, Q1 = self.prior.transition(h, one)
            mpred = A * m
            H, b = self.linearise(mpred, t + h)
            S0 = symm(H * Q1 * H.T + self.obs_noise())
            r0 = H * mpred + b
            s2 = self.white2(r0, S0)
            kap0 = self.kappa(H, mpred, b, r0)
            A, Q = self.prior.transition(h, s2)
            Pm = symm(A * P * A.T + Q)
            if self.relin:
                H, b = self.linearise(mpred, t + h)
        else:
            s2 = one
            kap0 = 0.0
            A, Q = self.prior.transition(h, one)
            mpred = A * m
            Pm = symm(A * P * A.T + Q)
            H, b = self.linearise(mpred, t + h)
        S = symm(H * Pm * H.T + self.obs_noise())
        r = H * mpred + b
        K = Pm * H.T * mp.inverse(S)
        mn = mpred - K * r
        Pn = symm(Pm - K * S * K.T)
        term2 = self.white2(r, S)
        kap = max(kap0, self.kappa(H, mpred, b, r))
        return dict(kappa=kap, m=mn, P=Pn, mpred=mpred, Ppred=Pm, A=A, Q=Q, s2=s2, term2=term2, t=t + h, h=h,
                    H=H, b=b, r=r, S=S, K=K)

    def run(self, m0, P0, t0, hs, init_term2=None):
        m, P, t = mp.matrix(m0), P0, mpf(t0)
        hist = [dict(m=m, P=P, t=t, term2=init_term2)]
        for h in hs:
            st = self.step(m, P, t, mpf(h))
            hist.append(st)
            m, P, t = st["m"], st["P"], st["t"]
        return hist

    def mle_scale2(self, hist, upto=None):
        """Documented quasi-MLE: mean of the whitened squared residuals of all updates so far
        (initial-constraint update included when present), divided by the number of steps when the
        asymptotic-underconfidence correction is on."""
        d = self.d
        steps = hist[1:] if upto is None else hist[1 : upto + 1]
        terms = [st["term2"] for st in steps]
        if hist[0].get("term2") is not None:
            terms = [hist[0]["term2"]] + terms
        N = len(terms)
        s2 = [sum(tm[i] for tm in terms) / N for i in range(d)]
        if self.mle_correct:
            s2 = [x / len(steps) for x in s2]
        return s2

    def scale_cov(self, P, s2):
        n, d = self.n, self.d
        sc = [mp.sqrt(s2[i % d]) for i in range(n * d)]
        R = mp.zeros(n * d)
        for i in range(n * d):
            for j in range(n * d):
                R[i, j] = P[i, j] * sc[i] * sc[j]
        return R

    # -- smoothing
    def smooth(self, hist, terminal=None):
        """RTS pass over hist; terminal = (m, P) overrides the last filtering marginal."""
        out = [None] * len(hist)
        ms, Ps = (hist[-1]["m"], hist[-1]["P"]) if terminal is None else terminal
        out[-1] = (ms, Ps)
        gains = [None] * len(hist)
        for k in range(len(hist) - 2, -1, -1):
            nx = hist[k + 1]
            G = hist[k]["P"] * nx["A"].T * pinv_psd(nx["Ppred"])
            ms = hist[k]["m"] + G * (ms - nx["mpred"])
            Ps = symm(hist[k]["P"] + G * (Ps - nx["Ppred"]) * G.T)
            out[k] = (ms, Ps)
            gains[k] = G
        return out, gains

    def predict_inside(self, hist, k, t):
        """Filter interpolation: prediction from hist[k] to time t (t_k < t <= t_{k+1}) with the
        calibrated scale of the enclosing step k+1."""
        nx = hist[k + 1]
        A1, Q1 = self.prior.transition(mpf(t) - hist[k]["t"], nx["s2"])
        return A1 * hist[k]["m"], symm(A1 * hist[k]["P"] * A1.T + Q1)

    def smooth_inside(self, hist, sm, k, t):
        """Smoothing marginal at an extra unobserved point t inside step k+1."""
        nx = hist[k + 1]
        mt, Pt = self.predict_inside(hist, k, t)
        A2, Q2 = self.prior.transition(nx["t"] - mpf(t), nx["s2"])
        Pp = symm(A2 * Pt * A2.T + Q2)
        mpd = A2 * mt
        G = Pt * A2.T * pinv_psd(Pp)
        ms, Ps = sm[k + 1]
        return mt + G * (ms - mpd), symm(Pt + G * (Ps - Pp) * G.T), (mt, Pt, G, mpd, Pp)


def hnw_initial_step(f0, f1_fun, y0, t0, atol, rtol, rate):
    """Hairer-Norsett-Wanner II.4 starting step, as documented for dt0_adaptive (float arithmetic in
    mp; the guards follow the published algorithm as adapted by jax.experimental.ode)."""
    n = len(y0)
    scale = [mpf(atol) + abs(mpf(y)) * mpf(rtol) for y in y0]
    d0 = mp.sqrt(sum(mpf(y) ** 2 for y in y0))
    d1 = mp.sqrt(sum(mpf(f) ** 2 for f in f0))
    if d0 < mpf("1e-5") or d1 < mpf("1e-5"):
        h0 = mpf("1e-6")
    else:
        h0 = mpf("0.01") * d0 / d1
    y1 = [mpf(y) + h0 * mpf(f) for y, f in zip(y0, f0)]
    f1 = f1_fun(y1, mpf(t0) + h0)
    d2 = mp.sqrt(sum(((mpf(a) - mpf(b)) / s) ** 2 for a, b, s in zip(f1, f0, scale))) / h0
    if d1 <= mpf("1e-15") and d2 <= mpf("1e-15"):
        h1 = max(mpf("1e-6"), h0 * mpf("1e-3"))
    else:
        h1 = (mpf("0.01") / max(d1, d2)) ** (1 / (mpf(rate) + 1))
    return min(100 * h0, h1)
