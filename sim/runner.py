"""Parallel runner: spawns fresh worker interpreters, aggregates, minimises, replays,
prints VIOLATION / KNOWN-FINDING lines and writes the evidence file.

Exit status: 0 property held on everything explored (known findings allowed),
1 at least one unlisted violation that a fresh-process replay reproduced,
2 harness error (never reported as a violation).
"""

import importlib
import json
import os
import subprocess
import sys
import time
import traceback

from sim import env
from sim.choices import Src, derive_seed
from sim.history import canon, digest_of

VERIF = env.VERIF
EVIDENCE_DIR = os.environ.get("VERIF_EVIDENCE_DIR") or os.path.join(VERIF, "evidence")
REPLAY_DIR = os.environ.get("VERIF_REPLAY_DIR") or os.path.join(VERIF, "replays")
PY = sys.executable


def load_check(pid):
    return importlib.import_module("checks." + pid.lower())


def known_findings():
    path = os.path.join(VERIF, "known_findings.json")
    if not os.path.exists(path):
        return []
    with open(path) as f:
        return json.load(f).get("entries", [])


# ----------------------------------------------------------------------------------
# one run


def classify_exception(exc):
    """'library' if the innermost non-jax frame is in the repository, else 'harness'."""
    tb = traceback.extract_tb(exc.__traceback__)
    for fr in reversed(tb):
        fn = fr.filename
        if "/site-packages/" in fn or fn.startswith("<"):
            continue
        if "/probdiffeq/" in fn and not fn.startswith(VERIF):
            return "library"
        if fn.startswith(VERIF):
            return "harness"
    return "harness"


class RunTimeout(BaseException):
    """Soft per-run wall-clock limit (BaseException: no 'except Exception' on the way may swallow it)."""


def _on_alarm(signum, frame):
    raise RunTimeout()


SOFT_TIMEOUT_S = 300.0


def run_one(mod, scenario, soft_timeout=None):
    """Execute one scenario; returns a JSON-able outcome dict.  A run that exceeds the soft wall-clock limit is
    abandoned and counted as inconclusive ('timeout'): it can never become a violation or an exit status."""
    import signal

    from sim.flowseam import StepBudgetExceeded

    t0 = time.perf_counter()
    armed = False
    if soft_timeout and hasattr(signal, "setitimer"):
        try:
            signal.signal(signal.SIGALRM, _on_alarm)
            signal.setitimer(signal.ITIMER_REAL, soft_timeout)
            armed = True
        except ValueError:  # not the main thread
            armed = False
    try:
        try:
            out = mod.execute(scenario)
            out.setdefault("status", "ok")
        finally:
            if armed:
                signal.setitimer(signal.ITIMER_REAL, 0)
    except RunTimeout:
        out = {"status": "inconclusive", "inconclusive": ["timeout"], "violations": [], "msg": f"soft limit {soft_timeout}s"}
    except StepBudgetExceeded as e:
        out = {"status": "inconclusive", "inconclusive": ["budget"], "violations": [], "msg": str(e)}
    except Exception as e:  # noqa: BLE001
        where = classify_exception(e)
        tbs = "".join(traceback.format_exception(type(e), e, e.__traceback__)[-6:])
        if where == "library" and getattr(mod, "LIBRARY_EXCEPTION_IS_VIOLATION", True):
            out = {
                "status": "ok",
                "violations": [
                    {"inv": "EXC", "msg": f"library raised {type(e).__name__} on a valid scenario: {str(e)[:200]}", "tb": tbs}
                ],
            }
        else:
            out = {"status": "harness_error", "violations": [], "msg": f"{type(e).__name__}: {str(e)[:300]}", "tb": tbs}
    out.setdefault("violations", [])
    out["wall"] = time.perf_counter() - t0
    return out


def worker_main(pid, tier, verif_seed, start, stride, count, out_path, deadline_s):
    env.setup_jax()
    mod = load_check(pid)
    import faulthandler

    faulthandler.enable()
    t_begin = time.monotonic()
    with open(out_path, "w") as f:
        for k in range(count):
            run = start + k * stride
            if time.monotonic() - t_begin > deadline_s:
                f.write(json.dumps({"run": run, "status": "skipped_wallcap"}) + "\n")
                continue
            seed = derive_seed(verif_seed, pid, run)
            try:
                sc = mod.gen_indexed(run, Src(seed), tier) if hasattr(mod, "gen_indexed") else mod.gen(Src(seed), tier)
            except Exception as e:  # noqa: BLE001
                rec = {"run": run, "seed": seed, "status": "harness_error", "msg": f"gen: {type(e).__name__}: {e}",
                       "tb": traceback.format_exc()[-1500:]}
                f.write(json.dumps(rec) + "\n")
                f.flush()
                continue
            faulthandler.dump_traceback_later(max(900, 3 * getattr(mod, "RUN_TIMEOUT_S", 300)), exit=True)
            out = run_one(mod, sc, soft_timeout=float(os.environ.get("VERIF_RUN_SOFT_TIMEOUT", SOFT_TIMEOUT_S)))
            faulthandler.cancel_dump_traceback_later()
            out["run"] = run
            out["seed"] = seed
            if out["violations"] or out["status"] != "ok" or (run // stride) < 3:
                out["scenario"] = sc
            f.write(json.dumps(canon_json(out)) + "\n")
            f.flush()


def canon_json(o):
    """Make numpy / jax scalars JSON-able without changing plain values."""
    if isinstance(o, dict):
        return {str(k): canon_json(v) for k, v in o.items()}
    if isinstance(o, (list, tuple)):
        return [canon_json(v) for v in o]
    if isinstance(o, (str, bool, int, float)) or o is None:
        return o
    try:
        import numpy as onp

        a = onp.asarray(o)
        if a.ndim == 0:
            return a.item()
        return a.tolist()
    except Exception:
        return repr(o)


# ----------------------------------------------------------------------------------
# shrink / replay (run in their own fresh interpreters)


def same_class(viols, inv):
    return [v for v in viols if v["inv"] == inv]


def shrink_main(in_path, out_path, budget_runs=150, budget_s=90.0):
    env.setup_jax()
    with open(in_path) as f:
        rep = json.load(f)
    mod = load_check(rep["property"])
    inv = rep["violation"]["inv"]
    sc = rep["scenario"]
    t0 = time.monotonic()
    runs = 0
    steps = 0
    cands = getattr(mod, "shrink_candidates", None)
    improved = cands is not None
    while improved and runs < budget_runs and time.monotonic() - t0 < budget_s:
        improved = False
        for cand in cands(sc):
            if runs >= budget_runs or time.monotonic() - t0 > budget_s:
                break
            runs += 1
            out = run_one(mod, cand)
            if out["status"] == "ok" and same_class(out["violations"], inv):
                sc = cand
                steps += 1
                improved = True
                break
    out = run_one(mod, sc)
    hits = same_class(out["violations"], inv)
    rep["scenario"] = sc
    rep["shrink"] = {"accepted_steps": steps, "executions": runs}
    if hits:
        rep["violation"] = {k: hits[0].get(k) for k in ("inv", "msg")}
        rep["digest"] = out.get("digest")
    with open(out_path, "w") as f:
        json.dump(canon_json(rep), f, indent=1, sort_keys=True)
    return 0


def replay_main(path, quiet=False):
    """Re-execute a replay file.  Exit 1 + VIOLATION line if it reproduces, 0 if it passes now."""
    env.setup_jax()
    with open(path) as f:
        rep = json.load(f)
    mod = load_check(rep["property"])
    out = run_one(mod, rep["scenario"])
    if out["status"] == "harness_error":
        print(f"HARNESS-ERROR replay {path}: {out.get('msg')}")
        print(out.get("tb", ""))
        return 2
    inv = rep["violation"]["inv"]
    hits = same_class(out["violations"], inv)
    same_digest = out.get("digest") == rep.get("digest")
    res = {"reproduced": bool(hits), "same_digest": same_digest, "digest": out.get("digest"),
           "violations": out["violations"][:5]}
    if not quiet:
        print(json.dumps(canon_json(res), indent=1))
    if hits:
        print(f"VIOLATION property={rep['property']} replay={path}")
        return 1
    return 0


# ----------------------------------------------------------------------------------
# parent


def _spawn(args, **extra_env):
    return subprocess.Popen([PY, "-m", "sim.cli", *args], env=env.child_env(**extra_env), cwd=VERIF,
                            stdout=subprocess.PIPE, stderr=subprocess.STDOUT, text=True)


def check_main(pid, tier, verif_seed, runs=None, workers=None, keep=False):
    t_start = time.time()
    mod = load_check_light(pid)
    n_runs = int(runs) if runs else int(mod["TIERS"][tier])
    workers = int(workers or min(os.cpu_count() or 1, 16, max(1, n_runs)))
    wallcap = float(mod.get("WALLCAP", {}).get(tier, 3600 if tier == "thorough" else 420))
    work = os.path.join(os.environ.get("VERIF_WORK_DIR") or os.path.join(VERIF, "work"), f"{pid}-{tier}-{os.getpid()}")
    os.makedirs(work, exist_ok=True)
    procs = []
    for w in range(workers):
        count = len(range(w, n_runs, workers))
        if count == 0:
            continue
        out = os.path.join(work, f"w{w}.jsonl")
        p = _spawn(["worker", pid, tier, str(verif_seed), str(w), str(workers), str(count), out, str(wallcap)])
        procs.append((w, p, out))
    harness_errors = []
    hard_deadline = time.time() + wallcap + 1500
    for w, p, out in procs:
        try:
            so, _ = p.communicate(timeout=max(5.0, hard_deadline - time.time()))
        except subprocess.TimeoutExpired:
            p.kill()
            so, _ = p.communicate()
            harness_errors.append(f"worker {w} killed at hard deadline")
        if p.returncode != 0:
            harness_errors.append(f"worker {w} exit {p.returncode}: {so[-1500:]}")
    records = []
    for w, p, out in procs:
        if os.path.exists(out):
            with open(out) as f:
                for line in f:
                    line = line.strip()
                    if line:
                        try:
                            records.append(json.loads(line))
                        except json.JSONDecodeError:
                            harness_errors.append(f"worker {w}: truncated record")
    records.sort(key=lambda r: r["run"])
    rc = finish(pid, tier, verif_seed, mod, records, harness_errors, work, t_start, n_runs, workers)
    if not keep:
        import shutil

        shutil.rmtree(work, ignore_errors=True)
        try:
            os.rmdir(os.path.join(VERIF, "work"))
        except OSError:
            pass
    return rc


def load_check_light(pid):
    """Static metadata of a check (checks/registry.py) -- the parent never imports jax."""
    env.setup_paths()
    reg = importlib.import_module("checks.registry")
    return reg.META[pid]


def finish(pid, tier, verif_seed, meta, records, harness_errors, work, t_start, n_runs, workers):
    kf = [e for e in known_findings() if e.get("property") == pid and e.get("kind") == "finding"]
    kf_ids = {e["id"]: e for e in kf}
    done = [r for r in records if r.get("status") in ("ok", "inconclusive")]
    herr = [r for r in records if r.get("status") == "harness_error"]
    skipped = [r for r in records if r.get("status") == "skipped_wallcap"]
    for r in herr[:5]:
        harness_errors.append(f"run {r['run']}: {r.get('msg')}\n{r.get('tb', '')}")

    # --- violations, split into known findings and new ones
    new_by_class = {}
    known_hits = {}
    n_viol_runs = 0
    for r in done:
        vs = r.get("violations") or []
        if not vs:
            continue
        counted = False
        for v in vs:
            fid = v.get("finding")
            if fid and fid in kf_ids:
                known_hits.setdefault(fid, []).append(r["run"])
                continue
            if not counted:
                n_viol_runs += 1
                counted = True
            new_by_class.setdefault(v["inv"], []).append((r, v))

    violation_lines = []
    os.makedirs(REPLAY_DIR, exist_ok=True)
    for inv, lst in sorted(new_by_class.items())[:4]:
        # smallest scenario first
        lst.sort(key=lambda rv: len(json.dumps(rv[0].get("scenario"))))
        r, v = lst[0]
        rep = {"property": pid, "verif_seed": verif_seed, "run": r["run"], "run_seed": r["seed"], "tier": tier,
               "scenario": r["scenario"], "violation": {"inv": v["inv"], "msg": v.get("msg")},
               "digest": r.get("digest"), "detail": v}
        raw = os.path.join(work, f"raw-{inv}.json")
        with open(raw, "w") as f:
            json.dump(canon_json(rep), f)
        name = f"{pid}-{verif_seed}-{r['run']}-{inv}-{digest_of(rep['scenario'])[:8]}.json"
        final = os.path.join(REPLAY_DIR, name)
        p = _spawn(["shrink", raw, final])
        try:
            so, _ = p.communicate(timeout=240)
        except subprocess.TimeoutExpired:
            p.kill()
            so = "shrink timeout"
        if not os.path.exists(final):
            with open(final, "w") as f:
                json.dump(canon_json(rep), f, indent=1, sort_keys=True)
        p = _spawn(["replay", final, "--quiet"])
        try:
            so, _ = p.communicate(timeout=600)
            code = p.returncode
        except subprocess.TimeoutExpired:
            p.kill()
            so, code = "replay timeout", 2
        if code == 1:
            violation_lines.append((inv, v.get("msg"), final, len(lst)))
        else:
            harness_errors.append(f"violation class {inv} (run {r['run']}: {v.get('msg')}) did not reproduce in a fresh "
                                  f"process (exit {code}): {so[-800:]}")

    # --- evidence
    wall = time.time() - t_start
    ev = build_evidence(pid, tier, verif_seed, meta, done, skipped, herr, known_hits, violation_lines, wall, n_runs,
                        workers)
    os.makedirs(EVIDENCE_DIR, exist_ok=True)
    with open(os.path.join(EVIDENCE_DIR, f"{pid}.json"), "w") as f:
        json.dump(ev, f, indent=1, sort_keys=True)

    cov = ev["coverage"]
    print(f"[{pid}] tier={tier} seed={verif_seed} runs={cov['evaluations']} (requested {n_runs}) "
          f"distinct_nontrivial={cov['distinct_nontrivial']} inconclusive={cov.get('inconclusive', {})} "
          f"wall={wall:.1f}s runs/hour={cov.get('runs_per_hour')}")
    print(f"[{pid}] faults fired: {json.dumps(cov.get('faults_fired', {}), sort_keys=True)}")
    print(f"[{pid}] probes: {json.dumps(cov.get('probes', {}), sort_keys=True)}")
    for fid, runs_ in sorted(known_hits.items()):
        e = kf_ids[fid]
        print(f"KNOWN-FINDING: property={pid} {e['what']} [id={fid}; met in {len(runs_)} run(s), e.g. run {runs_[0]}]")
    for inv, msg, path, cnt in violation_lines:
        print(f"[{pid}] violation class {inv} ({cnt} occurrence(s)): {msg}")
        print(f"VIOLATION property={pid} replay={path}")
    if violation_lines:
        return 1
    if harness_errors:
        for h in harness_errors[:3]:
            print(f"HARNESS-ERROR [{pid}] {h[:1800]}")
        if len(harness_errors) > 3:
            print(f"HARNESS-ERROR [{pid}] ... and {len(harness_errors) - 3} more")
        return 2
    if not done:
        print(f"HARNESS-ERROR [{pid}] no run completed")
        return 2
    return 0


def build_evidence(pid, tier, verif_seed, meta, done, skipped, herr, known_hits, violation_lines, wall, n_runs,
                   workers):
    def addmap(dst, src):
        for k, v in (src or {}).items():
            dst[k] = dst.get(k, 0) + (v if isinstance(v, (int, float)) else 1)

    faults, probes, stats, incon, cells, modes = {}, {}, {}, {}, {}, {}
    hist_all, hist_nontrivial = set(), set()
    samples = []
    for r in done:
        addmap(faults, r.get("faults"))
        addmap(probes, r.get("probes"))
        addmap(stats, r.get("stats"))
        for k in r.get("inconclusive") or []:
            incon[k] = incon.get(k, 0) + 1
        c = r.get("cell")
        if c:
            cells[c] = cells.get(c, 0) + 1
        m = r.get("mode")
        if m:
            modes[m] = modes.get(m, 0) + 1
        key = r.get("abstract_key") or r.get("abstract")
        if key is not None:
            key = (r.get("cell"), key)
            hist_all.add(key)
            if r.get("nontrivial"):
                hist_nontrivial.add(key)
        if len(samples) < 3 and r.get("sample") is not None:
            samples.append(r["sample"])
    if not samples:
        samples = [r.get("scenario") for r in done[:2] if r.get("scenario") is not None] or ["(no run completed)"]
    zero_probes = sorted(k for k in meta.get("PROBES", []) if not probes.get(k))
    n = len(done)
    cov = {
        "evaluations": n,
        "distinct_nontrivial": len(hist_nontrivial),
        "distinct_histories": len(hist_all),
        "rule": meta["RULE"],
        "samples": samples,
        "runs_requested": n_runs,
        "runs_skipped_wallcap": len(skipped),
        "runs_harness_error": len(herr),
        "runs_per_hour": int(n / wall * 3600) if wall > 0 else 0,
        "workers": workers,
        "simulated": {k: (round(v, 6) if isinstance(v, float) else v) for k, v in sorted(stats.items())},
        "faults_fired": dict(sorted(faults.items())),
        "probes": dict(sorted(probes.items())),
        "probes_at_zero": zero_probes,
        "configuration_cells": len(cells),
        "modes": modes,
        "inconclusive": incon,
        "components": meta.get("COMPONENTS", {}),
        "known_findings_met": {k: len(v) for k, v in sorted(known_hits.items())},
        "exhaustive": bool(meta.get("EXHAUSTIVE", {}).get(tier, False)),
    }
    return {
        "property_id": pid,
        "tier": tier,
        "seed": int(verif_seed),
        "level": meta["LEVEL"],
        "coverage": canon_json(cov),
        "assumptions": meta.get("ASSUMPTIONS", []),
        "wall_s": round(wall, 2),
        "violations": len(violation_lines),
    }
