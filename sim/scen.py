"""Shared scenario machinery for the real-solver checks (C01, C03-C05, C07, C12-C14):
forced or natural step histories, checkpoint placement relative to step ends (F3), final-time
alignment (F4), stepped execution with recording proxies, and reference values at output
times computed over a node list (every step end and every output time is a node)."""

import math

import jax.numpy as jnp
import mpmath as mp
import numpy as onp
from probdiffeq import ivpsolve, probdiffeq
from probdiffeq.util import test_util

from sim import configs, embed, flowseam
from sim.history import Recorder
from sim.peers import ForcedCtrl, ForcedErr, RecCtrl, RecErr, RecSolver, gen_script
from sim.refmodel import mpf, pinv_psd, symm

# ------------------------------------------------------------------------------------------
# generation


def gen_history(src, *, nsteps=(3, 7), hb_exp=(-1.6, -0.6), p_reject=0.4, rel_lo=0.3):
    n = src.randint("nsteps", *nsteps)
    hb = 10 ** src.uniform("hb", *hb_exp)
    return gen_script(src, n, hb, p_reject=p_reject, rel_lo=rel_lo)


PLACE_KINDS = [("inside", 4), ("at_end", 2), ("eps_window", 2), ("multi", 1.5), ("coincide", 0.7), ("near_miss", 0.0)]


def gen_placements(src, nsteps, n=(1, 4), allow_near_miss=False):
    kinds = list(PLACE_KINDS)
    if allow_near_miss:
        kinds[-1] = ("near_miss", 1.0)
    out = []
    for _ in range(src.randint("n_cp", *n)):
        kind = src.weighted("cp_kind", kinds)
        k = src.randint("k", 0, max(0, nsteps - 1))
        if kind == "inside":
            out.append({"kind": "inside", "k": k, "frac": src.uniform("frac", 0.05, 0.95)})
        elif kind == "at_end":
            out.append({"kind": "at_end", "k": k})
        elif kind == "eps_window":
            out.append({"kind": "eps_window", "k": k, "mult": src.choice("mult", [0.5, -0.5, 0.9, -0.9, 0.1])})
        elif kind == "multi":
            out.append({"kind": "multi", "k": k, "n": src.randint("n", 2, 3)})
        elif kind == "coincide":
            out.append({"kind": "coincide", "k": k})  # two checkpoints closer than eps, both at a step end
        else:
            out.append({"kind": "near_miss", "k": k, "delta_rel": 10 ** src.uniform("dr", -7, -4),
                        "side": src.choice("side", [1, -1])})
    return out


def gen_final(src):
    """How the last step ends relative to the final time (F4)."""
    return src.weighted("final", [({"kind": "overstep", "frac": src.uniform("of", 0.1, 0.9)}, 4),
                                  ({"kind": "exact_clip"}, 2),
                                  ({"kind": "within_eps", "mult": src.choice("fm", [0.5, -0.5, 0.0])}, 1.5)])


def resolve_layout(script, t0, placements, final, eps):
    """Concrete (save_at, T, clip) from a forced script.  With clipping the last accepted step of the
    script is cut so that it lands exactly on T."""
    accs = [s[-1] for s in script[:-1]]
    ends = [t0 + x for x in onp.cumsum(accs)]
    starts = [t0] + ends[:-1]
    n = len(accs)
    clip = False
    if final["kind"] == "overstep":
        T = ends[-1] - final["frac"] * accs[-1]
    elif final["kind"] == "exact_clip":
        T = ends[-1] - 0.37 * accs[-1]
        clip = True
    else:
        T = ends[-1] + final["mult"] * eps
    cps = []
    classes = {}
    for p in placements:
        k = min(p["k"], n - 1)
        a, b_ = starts[k], ends[k]
        if p["kind"] == "inside":
            xs = [a + p["frac"] * (b_ - a)]
        elif p["kind"] == "at_end":
            xs = [b_]
        elif p["kind"] == "eps_window":
            xs = [b_ + p["mult"] * eps]
        elif p["kind"] == "multi":
            xs = [a + (b_ - a) * (i + 1) / (p["n"] + 1) for i in range(p["n"])]
        elif p["kind"] == "coincide":
            xs = [b_, b_ + 0.5 * eps]
        else:
            xs = [b_ + p["side"] * p["delta_rel"] * (b_ - a)]
        for x in xs:
            if t0 + 10 * eps < x < T - 10 * eps:
                cps.append(float(x))
                classes[float(x)] = p["kind"]
    cps = sorted(set(cps))
    # regular class: drop checkpoints that would create a sub-interval in (eps, 1e-3 h) to a step end
    keep = []
    for x in cps:
        near = min(ends, key=lambda e: abs(e - x))
        dist = abs(near - x)
        h = accs[ends.index(near)]
        if classes[x] != "near_miss" and eps * 1.001 < dist < 1e-3 * h:
            continue
        if keep and abs(x - keep[-1]) < 1e-3 * h and classes[x] not in ("near_miss", "coincide"):
            continue
        keep.append(x)
    return [float(t0)] + keep + [float(T)], float(T), clip, {x: classes[x] for x in keep}


# ------------------------------------------------------------------------------------------
# execution (stepped)


class Run:
    pass


def run_forced(b, script, save_at, *, clip=False, eps=1e-8, driver="save_at", rec=None, budget=20_000):
    """Real solver + real loop driven along a forced history."""
    rec = rec or Recorder()
    rs = RecSolver(b.solver, rec)
    err = ForcedErr(script, rec)
    ctrl = ForcedCtrl(script)
    damp = b.cfg["damp"]
    with flowseam.stepped(budget=budget):
        if driver == "save_at":
            solve = ivpsolve.solve_adaptive_save_at(solver=rs, error=err, control=ctrl, clip_dt=clip,
                                                    while_loop=flowseam.py_while, warn=False)
            sol = solve(b.prior, save_at=jnp.asarray(save_at, dtype=float), atol=1e-3, rtol=1e-3, dt0=script[0][0],
                        eps=eps, damp=damp)
        elif driver == "terminal":
            solve = ivpsolve.solve_adaptive_terminal_values(solver=rs, error=err, control=ctrl, clip_dt=clip,
                                                            while_loop=flowseam.py_while)
            sol = solve(b.prior, t0=save_at[0], t1=save_at[-1], atol=1e-3, rtol=1e-3, dt0=script[0][0], eps=eps,
                        damp=damp)
        else:
            import warnings

            with warnings.catch_warnings():
                warnings.simplefilter("ignore")
                solve = test_util.solve_adaptive_save_every_step(rs, err, ctrl, clip_dt=clip)
            sol = solve(b.prior, save_at[0], save_at[-1], atol=1e-3, rtol=1e-3, dt0=script[0][0], eps=eps, damp=damp)
    r = Run()
    r.sol, r.rs, r.err, r.rec = sol, rs, err, rec
    r.accepted = [(t, dt) for (t, dt, ok) in err.log if ok]
    r.attempts = len(err.log)
    return r


def make_error(b, spec):
    c = b.constraint
    kind = spec.get("kind", "residual")
    norm = probdiffeq.error_norm_scale_then_rms() if spec.get("norm", "scale_then_rms") == "scale_then_rms" \
        else probdiffeq.error_norm_rms_then_scale()
    if kind == "residual":
        return probdiffeq.error_residual_std(constraint=c, error_norm=norm,
                                             re_linearize_before_error=spec.get("relin", False),
                                             error_per_unit_step=spec.get("per_unit_step", False))
    return probdiffeq.error_state_std(constraint=c, error_norm=norm, re_linearize_before_error=spec.get("relin", False),
                                      derivative_idx=spec.get("derivative_idx", 0),
                                      error_per_unit_step=spec.get("per_unit_step", False))


def make_control(spec):
    if spec is None or spec.get("kind", "I") == "I":
        spec = spec or {}
        return ivpsolve.control_integral(safety=spec.get("safety", 0.95), factor_min=spec.get("factor_min", 0.2),
                                         factor_max=spec.get("factor_max", 10.0))
    return ivpsolve.control_proportional_integral(
        safety=spec.get("safety", 0.95), factor_min=spec.get("factor_min", 0.2), factor_max=spec.get("factor_max", 10.0),
        exponent_integral=spec.get("exponent_integral", 0.3), exponent_proportional=spec.get("exponent_proportional", 0.4))


def run_natural(b, save_at, *, atol, rtol, dt0, clip=False, eps=1e-8, driver="save_at", error_spec=None,
                control_spec=None, fault=None, rec=None, budget=50_000, error_obj=None, keep_states=False, on_call=None,
                stop_after_calls=None):
    """Real solver, real estimator, real controller; recording proxies inject F1/F2.
    stop_after_calls: end the simulated run after that many estimator calls (r.sol is None, r.truncated True)."""
    rec = rec or Recorder()
    rs = RecSolver(b.solver, rec)
    inner_err = error_obj if error_obj is not None else make_error(b, error_spec or {})
    err = RecErr(inner_err, rec, fault)
    err.keep_states = keep_states
    ncalls = [0]

    def hook():
        if on_call is not None:
            on_call()
        ncalls[0] += 1
        if stop_after_calls is not None and ncalls[0] > stop_after_calls:
            raise StopRun()

    err.on_call = hook
    ctrl = RecCtrl(make_control(control_spec), rec, fault)
    damp = b.cfg["damp"]
    sol, truncated = None, False
    try:
        sol = _solve_natural(b, rs, err, ctrl, save_at, atol, rtol, dt0, clip, eps, driver, damp, budget)
    except StopRun:
        truncated = True
    r = Run()
    r.sol, r.rs, r.err, r.ctrl, r.rec, r.truncated = sol, rs, err, ctrl, rec, truncated
    r.accepted = [(t, dt) for (t, dt, seen, true) in err.log if seen >= 1.0]
    r.attempts = len(err.log)
    return r


class StopRun(Exception):
    """Raised by the estimator proxy to end a simulated run early (enough attempts recorded)."""


def _solve_natural(b, rs, err, ctrl, save_at, atol, rtol, dt0, clip, eps, driver, damp, budget):
    with flowseam.stepped(budget=budget):
        if driver == "save_at":
            solve = ivpsolve.solve_adaptive_save_at(solver=rs, error=err, control=ctrl, clip_dt=clip,
                                                    while_loop=flowseam.py_while, warn=False)
            sol = solve(b.prior, save_at=jnp.asarray(save_at, dtype=float), atol=atol, rtol=rtol, dt0=dt0, eps=eps,
                        damp=damp)
        elif driver == "terminal":
            solve = ivpsolve.solve_adaptive_terminal_values(solver=rs, error=err, control=ctrl, clip_dt=clip,
                                                            while_loop=flowseam.py_while)
            sol = solve(b.prior, t0=save_at[0], t1=save_at[-1], atol=atol, rtol=rtol, dt0=dt0, eps=eps, damp=damp)
        else:
            import warnings

            with warnings.catch_warnings():
                warnings.simplefilter("ignore")
                solve = test_util.solve_adaptive_save_every_step(rs, err, ctrl, clip_dt=clip)
            sol = solve(b.prior, save_at[0], save_at[-1], atol=atol, rtol=rtol, dt0=dt0, eps=eps, damp=damp)
    return sol


# ------------------------------------------------------------------------------------------
# reference values at output times


def classify_times(times, ends, eps, t0):
    """For each requested time: ('end', k) if a step end lies within eps (the loop's at-checkpoint
    branch reports the state at that end), ('inside', k) if strictly inside step k+1, ('t0', 0).
    Borderline distances (within 1e-3 eps of eps) are reported separately."""
    out, borderline = [], False
    for t in times:
        if abs(t - t0) <= eps and t <= t0 + eps:
            out.append(("t0", 0))
            continue
        hit = None
        for k, e in enumerate(ends):
            dist = abs(e - t)
            if abs(dist - eps) <= 1e-3 * eps:
                borderline = True
            if dist <= eps:
                hit = k
                break
        if hit is not None:
            out.append(("end", hit))
            continue
        k = 0
        while k < len(ends) and ends[k] < t:
            k += 1
        out.append(("inside", k))
    return out, borderline


def build_nodes(b, hist, times, eps):
    """Node list over the accepted-step history plus the requested times that fall strictly inside a
    step.  Each node: t, m, P (filtering-type marginal: filter at step ends, prediction inside steps),
    and the transition from the previous node (A, mpred, Ppred).  Returns (nodes, index_of_time)."""
    model = b.model
    ends = [float(st["t"]) for st in hist[1:]]
    t0 = float(hist[0]["t"])
    cls, borderline = classify_times(times, ends, eps, t0)
    inside = {}
    for t, (kind, k) in zip(times, cls):
        if kind == "inside":
            if k >= len(ends):
                raise ValueError("requested time beyond the last accepted step")
            inside.setdefault(k, []).append(t)
    nodes = [dict(t=hist[0]["t"], m=hist[0]["m"], P=hist[0]["P"], kind="t0", step=0)]
    where = {}
    for k in range(len(ends)):
        nx = hist[k + 1]
        prev = nodes[-1]
        for t in sorted(set(inside.get(k, []))):
            A, Q = model.prior.transition(mpf(t) - prev["t"], nx["s2"])
            mpred = A * prev["m"]
            Ppred = symm(A * prev["P"] * A.T + Q)
            node = dict(t=mpf(t), m=mpred, P=Ppred, A=A, mpred=mpred, Ppred=Ppred, kind="inside", step=k + 1)
            nodes.append(node)
            where[t] = len(nodes) - 1
            prev = node
        A, Q = model.prior.transition(nx["t"] - prev["t"], nx["s2"])
        mpred = A * prev["m"]
        Ppred = symm(A * prev["P"] * A.T + Q)
        nodes.append(dict(t=nx["t"], m=nx["m"], P=nx["P"], A=A, mpred=mpred, Ppred=Ppred, kind="end", step=k + 1))
        for t, (kind, kk) in zip(times, cls):
            if kind == "end" and kk == k:
                where[t] = len(nodes) - 1
    for t, (kind, kk) in zip(times, cls):
        if kind == "t0":
            where[t] = 0
    return nodes, [where[t] for t in times], cls, borderline


def smooth_nodes(nodes):
    """RTS over the node list.  Returns smoothed (m, P) per node and the backward gains G[i]
    (kernel x_i | x_{i+1})."""
    n = len(nodes)
    sm = [None] * n
    G = [None] * n
    ms, Ps = nodes[-1]["m"], nodes[-1]["P"]
    sm[-1] = (ms, Ps)
    for i in range(n - 2, -1, -1):
        nx = nodes[i + 1]
        g = nodes[i]["P"] * nx["A"].T * pinv_psd(nx["Ppred"])
        ms = nodes[i]["m"] + g * (ms - nx["mpred"])
        Ps = symm(nodes[i]["P"] + g * (Ps - nx["Ppred"]) * g.T)
        sm[i] = (ms, Ps)
        G[i] = g
    return sm, G


def gain_between(G, i, j):
    """Backward kernel matrix from node j down to node i (i < j): product G[i] G[i+1] ... G[j-1]."""
    M = None
    for k in range(i, j):
        M = G[k] if M is None else M * G[k]
    return M


def final_scale2(b, hist):
    """Per-dimension squared scale the returned covariances are multiplied with (MLE only)."""
    return b.model.mle_scale2(hist) if b.cfg["calib"] == "mle" else None


def scale_node_cov(b, P, s2):
    return P if s2 is None else b.model.scale_cov(P, s2)
