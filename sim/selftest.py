"""Determinism self-test: the same VERIF_SEED must give the same event-log digest for every run,
(a) twice in fresh interpreters, (b) under another PYTHONHASHSEED, (c) at a different worker count /
position in the block.  A mismatch is a HARNESS-ERROR (exit 2), never a VIOLATION."""

import json
import os
import subprocess
import sys
import tempfile

from sim import env

CHECKS_DEFAULT = ["C06", "C02", "C05", "C13", "C07", "C01", "C19"]


def run_block(pid, seed, start, stride, count, hashseed, tmp, tag):
    out = os.path.join(tmp, f"{pid}-{tag}.jsonl")
    e = env.child_env()
    e["PYTHONHASHSEED"] = str(hashseed)
    p = subprocess.run([sys.executable, "-m", "sim.cli", "worker", pid, "quick", str(seed), str(start), str(stride), str(count), out, "900"],
                       env=e, cwd=env.VERIF, capture_output=True, text=True)
    if p.returncode != 0:
        raise RuntimeError(f"worker failed: {p.stdout[-500:]} {p.stderr[-500:]}")
    res = {}
    with open(out) as f:
        for line in f:
            r = json.loads(line)
            res[r["run"]] = (r.get("digest"), r.get("status"), len(r.get("violations") or []))
    return res


def main(argv):
    checks = [a for a in argv if a.startswith("C")] or CHECKS_DEFAULT
    n = 6
    for a in argv:
        if a.startswith("--n="):
            n = int(a[4:])
    seed = int(os.environ.get("VERIF_SEED", "0") or 0)
    bad = []
    total = 0
    with tempfile.TemporaryDirectory(prefix="probsim-selftest-") as tmp:
        for pid in checks:
            a = run_block(pid, seed, 0, 1, n, 0, tmp, "a")          # contiguous block, hash seed 0
            b_ = run_block(pid, seed, 0, 1, n, 0, tmp, "b")         # same again, fresh interpreter
            c = run_block(pid, seed, 0, 1, n, 12345, tmp, "c")      # other PYTHONHASHSEED
            d1 = run_block(pid, seed, 0, 2, (n + 1) // 2, 0, tmp, "d1")  # strided as with 2 workers
            d2 = run_block(pid, seed, 1, 2, n // 2, 0, tmp, "d2")
            d = {**d1, **d2}
            for run in sorted(a):
                total += 1
                vals = {k: v.get(run) for k, v in (("a", a), ("b", b_), ("hashseed", c), ("strided", d))}
                if len({json.dumps(v) for v in vals.values()}) != 1:
                    bad.append((pid, run, vals))
            print(f"[selftest] {pid}: {len(a)} runs x 4 executions compared", flush=True)
    if bad:
        for pid, run, vals in bad[:10]:
            print(f"HARNESS-ERROR determinism: {pid} run {run} digests differ: {vals}")
        return 2
    print(f"[selftest] OK: {total} runs, identical digests across fresh interpreters, PYTHONHASHSEED and worker strides")
    return 0
