"""C06 world: scripted Solver / ErrorEstimator peers and a recording Control proxy around the
*real* time-stepping loop and the *real* controllers.

The host side (class World) owns every accept/reject decision, hands out a fresh token for
every state the solver peer creates, keeps a small sequential reference model of what the
loop is allowed to do (which state is current, which one interpolation starts from) and
evaluates the invariants I1..I8 online, event by event.

The same peers run in two modes:
  stepped   host functions are called directly (flow seam installed, everything concrete)
  compiled  host functions are reached through ordered jax.experimental.io_callback from
            inside jit-compiled lax.while_loop / cond / switch / scan
so that the two event logs can be compared.
"""

import math
import random

import jax
import jax.numpy as jnp
import numpy as onp
from jax.experimental import io_callback
from probdiffeq._probdiffeq import utilities
from probdiffeq.backend import structs, tree

from sim.history import Recorder

F64 = jax.ShapeDtypeStruct((), jnp.float64)
F64x3 = jax.ShapeDtypeStruct((3,), jnp.float64)


@tree.register_dataclass
@structs.dataclass
class S:
    t: jax.Array
    tok: jax.Array
    num_steps: jax.Array


def within_eps(a, b, eps):
    """|a - b| <= eps up to the rounding of the loop's own comparison `t + eps < t1`
    (the property says "up to the eps the caller passes"; one rounding of t + eps is not a violation)."""
    return abs(a - b) <= eps * (1.0 + 1e-6) + 4.0 * math.ulp(max(abs(a), abs(b), 1e-300))


class Livelock(RuntimeError):
    pass


class AbortRun(RuntimeError):
    """Raised once enough violations are recorded: the run is decided, stop spending time on it."""


class World:
    """Host side: decisions, tokens, reference model, online invariants."""

    def __init__(self, sc):
        self.sc = sc
        self.rec = Recorder()
        self.rng = random.Random(sc["noise_seed"])
        self.ntok = 0
        self.viol = []
        self.save_at = list(sc["save_at"])
        self.eps = sc["eps"]
        self.clip = sc["clip"]
        # reference model of the loop state
        self.step_from = 0.0  # token
        self.interp_from = 0.0
        self.tok_t = {0.0: float(self.save_at[0])}
        self.tok_steps = {0.0: 0}
        self.accepted = 0
        self.pending = None  # (from_tok, new_tok, t, dt)
        self.last_rejected = None  # (from_tok, dt)
        self.rej_streak = 0
        self.reported = []  # (t_requested_index, tok_sol, t_reported)
        self.context = "first"
        self.burst_left = 0
        self.zero_left = 0
        self.at_t1_repeat = 0
        self.last_accept_clipped = False
        self.attempts = 0
        self.max_attempts = sc.get("max_attempts", 2000)
        self.faults = {}
        self.probes = {}
        self.ctrl_expect = float(sc["dt0"])
        self.steps_in_current_interval = 0
        self.interps_since_accept = 0
        self.mode_every_step = sc["driver"] == "every_step"

    # -- helpers
    def v(self, inv, msg, **data):
        if len(self.viol) < 20:
            self.viol.append({"inv": inv, "msg": msg, "data": data, "event": len(self.rec.events)})
        if len(self.viol) >= 3:
            raise AbortRun(inv)

    def bump(self, d, k, n=1):
        d[k] = d.get(k, 0) + n

    def new_tok(self):
        self.ntok += 1
        return float(self.ntok)

    def target_index(self):
        if self.mode_every_step:
            return len(self.save_at) - 1
        return min(len(self.reported) + 1, len(self.save_at) - 1)

    def hstar(self, t):
        prof = self.sc["profile"]
        for tb, h in prof:
            if t < tb:
                return h
        return prof[-1][1]

    # -- peer entry points (host side)
    def h_step(self, tok, t, dt):
        tok, t, dt = float(tok), float(t), float(dt)
        self.attempts += 1
        if self.attempts > self.max_attempts:
            from sim.flowseam import StepBudgetExceeded

            raise StepBudgetExceeded("attempt budget")
        new = self.new_tok()
        self.rec.emit("step", tok=tok, t=t, dt=dt, new=new)
        if tok != self.step_from:
            self.v("I1", "step does not start from the current accepted state", got=tok, expected=self.step_from)
        elif abs(self.tok_t.get(tok, t) - t) > 0:
            self.v("I1", "state time changed without an accepted attempt", t=t, expected=self.tok_t.get(tok))
        if not (dt > 0.0) or not math.isfinite(dt):
            self.v("I2", "attempted step is not positive and finite", dt=dt)
        if self.last_rejected is not None and self.last_rejected[0] == tok:
            if not dt < self.last_rejected[1]:
                self.v("I2", "retry after a rejection is not strictly smaller", dt=dt, previous=self.last_rejected[1])
        if self.ctrl_expect is not None:
            exp = self.ctrl_expect
            tgt = self.save_at[self.target_index()]
            lands = abs((t + dt) - tgt) <= 4e-16 * max(1.0, abs(tgt))
            if dt > exp or (dt < exp and not (self.clip and lands)):
                self.v("I3", "attempted step is neither the controller's proposal nor that proposal clipped to land "
                             "on the checkpoint", dt=dt, proposal=exp, target=tgt)
        if self.clip:
            tgt = self.save_at[self.target_index()]
            if t + dt > tgt + 4e-16 * max(1.0, abs(tgt)):
                self.v("I4", "clipped attempt ends beyond the checkpoint being advanced to", end=t + dt, target=tgt)
            if self.ctrl_expect is not None and dt < self.ctrl_expect:
                self.bump(self.faults, "clipped_attempt")
                if dt < 1e-3 * self.ctrl_expect:
                    self.bump(self.probes, "clipped_ratio_below_1e-3")
        self.pending = (tok, new, t, dt)
        return new

    def h_err(self, ptok, ntok, pt, dt):
        ptok, ntok, pt, dt = float(ptok), float(ntok), float(pt), float(dt)
        sc = self.sc
        noise = math.exp(sc["noise"] * self.rng.uniform(-1.0, 1.0))
        hs = self.hstar(pt)
        if not dt > 0.0:  # already reported as I2 by h_step; accept to let the run end
            self.rec.emit("err", prev=ptok, prop=ntok, dt=dt, ep=2.0, acc=True, fault="nonpositive_dt")
            return 2.0
        ep = hs * noise / dt
        fault = None
        # F11: the error estimate vanishes exactly (error_power = inf), possibly several attempts in a row
        pz = sc.get("p_zero_error", 0.0)
        if pz > 0.0:
            uz = self.rng.random()
            if self.zero_left > 0 or uz < pz:
                self.zero_left = self.zero_left - 1 if self.zero_left > 0 else (2 if uz < 0.5 * pz else 0)
                ep = float("inf")
                self.bump(self.faults, "F11_zero_error_estimate")
        # F1 / F10: spurious rejections, biased towards in-flight moments
        u = self.rng.random()
        if self.burst_left > 0:
            self.burst_left -= 1
            fault = "burst"
        elif ep >= 1.0:
            p = sc["p_reject"].get(self.context, sc["p_reject"]["plain"])
            if u < p:
                fault = self.context
                self.burst_left = sc["burst"] - 1 if self.rng.random() < 0.3 else 0
        # fault-rate tuning: never push an attempt that is already 1000x below the admissible size
        if fault is not None and self.rej_streak < 6 and dt > 1e-3 * hs:
            ep = min(ep, 0.3 + 0.65 * self.rng.random())
            self.bump(self.faults, "F1_spurious_reject")
            self.bump(self.faults, "F10_reject_" + fault)
        if self.pending is None or self.pending[1] != ntok or self.pending[0] != ptok:
            self.v("I1", "error estimate is not for the attempt just made", previous=ptok, proposed=ntok)
        acc = ep >= 1.0
        self.rec.emit("err", prev=ptok, prop=ntok, dt=dt, ep=ep, acc=acc, fault=fault)
        if acc:
            tnew = self.pending[2] + self.pending[3]
            self.tok_t[ntok] = tnew
            self.accepted += 1
            self.tok_steps[ntok] = self.accepted
            self.interp_from = self.step_from
            self.step_from = ntok
            self.last_rejected = None
            if self.rej_streak >= 3:
                self.bump(self.probes, "three_consecutive_rejections")
            self.rej_streak = 0
            tgt = self.save_at[self.target_index()]
            clipped = self.clip and self.ctrl_expect is not None and dt < self.ctrl_expect
            self.rec.mark("C" if clipped else "A")
            self.context = "after_clip" if clipped else "plain"
            self.interps_since_accept = 0
            if abs(tnew - tgt) <= self.eps:
                self.bump(self.probes, "step_end_within_eps_of_checkpoint")
            if abs(abs(tnew - tgt) - self.eps) <= 1e-3 * self.eps:
                self.bump(self.probes, "step_end_at_eps_boundary")
        else:
            self.last_rejected = (ptok, dt)
            self.rej_streak += 1
            if self.rej_streak > 200:
                self.v("I8", "more than 200 consecutive rejections", streak=self.rej_streak)
            if self.context == "after_checkpoint":
                self.bump(self.probes, "rejection_directly_after_checkpoint")
            if self.context == "first":
                self.bump(self.probes, "first_attempt_rejected")
            self.rec.mark("R")
            self.context = "plain" if self.context not in ("plain",) else "plain"
        self.last_ep = ep
        return ep

    def h_ctrl(self, dt, ep, out, mem_in, mem_out):
        dt, ep, out = float(dt), float(ep), float(out)
        sc = self.sc
        f = out / dt if dt != 0 else float("nan")
        self.rec.emit("ctrl", dt=dt, ep=ep, out=out)
        lo, hi = sc["ctrl"]["factor_min"], sc["ctrl"]["factor_max"]
        if not (lo * (1 - 1e-12) <= f <= hi * (1 + 1e-12)):
            self.v("I3", "proposal / attempted step outside [factor_min, factor_max]", factor=f, lo=lo, hi=hi)
        if abs(f - lo) <= 1e-12 * lo:
            self.bump(self.probes, "proposal_clipped_at_factor_min")
        if abs(f - hi) <= 1e-12 * hi:
            self.bump(self.probes, "proposal_clipped_at_factor_max")
        if getattr(self, "last_ep", None) is not None and ep != self.last_ep:
            self.v("I3", "controller did not receive the error estimate of this attempt", got=ep, expected=self.last_ep)
        if self.pending is not None and dt != self.pending[3]:
            self.v("I3", "controller did not receive the attempted step", got=dt, expected=self.pending[3])
        if sc["ctrl"]["kind"] == "PI":
            try:
                mi = float(mem_in)
                if ep < 1.0 and mi != 1.0:
                    self.bump(self.probes, "PI_memory_used_after_rejection")
            except (TypeError, ValueError):
                pass
        self.ctrl_expect = out
        return 0.0

    def h_interp(self, kind, t, ftok, ft, ttok, tt):
        kind = int(kind)
        t, ftok, ft, ttok, tt = float(t), float(ftok), float(ft), float(ttok), float(tt)
        name = "at_t1" if kind == 1 else "beyond"
        a, b, c = self.new_tok(), self.new_tok(), self.new_tok()
        self.rec.emit("interp", kind=name, t=t, ftok=ftok, ft=ft, ttok=ttok, tt=tt, sol=a, step_from=b, interp_from=c)
        eps = self.eps
        idx = len(self.reported) + 1
        if self.mode_every_step:
            want = self.save_at[-1]
        else:
            want = self.save_at[idx] if idx < len(self.save_at) else None
        if want is None:
            self.v("I8", "more interpolation calls than requested times", t=t)
        elif t != want:
            self.v("I8", "interpolation is not for the next requested time", t=t, expected=want)
        if ttok != self.step_from:
            self.v("I6", "interp_to is neither the latest accepted state nor the step_from returned by the previous "
                         "interpolation", got=ttok, expected=self.step_from)
        if ftok != self.interp_from:
            self.v("I6", "interp_from is not the state the current subinterval starts from", got=ftok,
                   expected=self.interp_from)
        if not (ft <= t + eps * (1 + 1e-6) + 4 * math.ulp(abs(t)) and t <= tt + eps * (1 + 1e-6) + 4 * math.ulp(abs(t))):
            self.v("I6", "interpolation time not between the two states", t=t, t_from=ft, t_to=tt)
        if kind == 1 and not within_eps(tt, t, eps):
            self.v("I6", "at-checkpoint branch although the step end is farther than eps from the checkpoint", t=t, t_to=tt)
        if kind == 0 and not tt > t:
            self.v("I6", "beyond-checkpoint branch although the step end is not beyond the checkpoint", t=t, t_to=tt)
        t_rep = tt if kind == 1 else t
        self.reported.append((idx, a, t_rep, self.accepted))
        self.tok_t[b] = tt
        self.tok_t[c] = tt if kind == 1 else t
        self.tok_steps[a] = self.accepted
        self.step_from, self.interp_from = b, c
        self.rec.mark("a" if kind == 1 else "b")
        if self.interps_since_accept >= 1:
            self.bump(self.probes, "two_checkpoints_in_one_step")
        self.interps_since_accept += 1
        self.context = "after_checkpoint"
        if kind == 1:
            self.bump(self.probes, "at_checkpoint_branch")
            self.at_t1_repeat += 1
            if self.mode_every_step and self.at_t1_repeat > 3:
                raise Livelock("every-step driver keeps interpolating at t1 without terminating")
        return onp.asarray([a, b, c], dtype=onp.float64)

    # -- end-of-run checks over the returned solution (I5, I7)
    def finish(self, ts, toks, nsteps, driver):
        eps = self.eps
        sa = self.save_at
        ts = [float(x) for x in ts]
        toks = [float(x) for x in toks]
        nsteps = [float(x) for x in nsteps]
        if driver == "save_at":
            if len(ts) != len(sa):
                self.v("I5", "number of reported times differs from the number requested", got=len(ts), want=len(sa))
            for i, (a, b) in enumerate(zip(ts, sa)):
                if not within_eps(a, b, eps):
                    self.v("I5", "reported time farther than eps from the requested time", i=i, got=a, want=b)
            if len(self.reported) != len(sa) - 1:
                self.v("I8", "not exactly one interpolation per requested time", got=len(self.reported), want=len(sa) - 1)
            for (idx, tok, t_rep, acc), t_out, tok_out, ns in zip(self.reported, ts[1:], toks[1:], nsteps[1:]):
                if tok_out != tok:
                    self.v("I5", "reported value is not the state returned by that checkpoint's interpolation", i=idx,
                           got=tok_out, want=tok)
                if ns != acc:
                    self.v("I7", "reported step count differs from the number of accepted attempts", i=idx, got=ns,
                           want=acc)
        elif driver == "terminal":
            if not within_eps(ts[-1], sa[-1], eps):
                self.v("I5", "terminal time farther than eps from t1", got=ts[-1], want=sa[-1])
            if self.reported and toks[-1] != self.reported[-1][1]:
                self.v("I5", "terminal value is not the state returned by the final interpolation", got=toks[-1])
            if nsteps[-1] != self.accepted:
                self.v("I7", "reported step count differs from the number of accepted attempts", got=nsteps[-1],
                       want=self.accepted)
        else:  # every_step
            if not within_eps(ts[-1], sa[-1], eps):
                self.v("I5", "final reported time farther than eps from t1", got=ts[-1], want=sa[-1])
            if len(self.reported) != 1:
                self.v("I8", "every-step run must interpolate exactly once (at t1)", got=len(self.reported))
            if len(ts) != self.accepted + 1 and len(ts) != self.accepted + 2:
                self.v("I5", "every-step run must report each accepted step once", got=len(ts), accepted=self.accepted)
            for k, ns in enumerate(nsteps[1:-1], start=1):
                if ns != k:
                    self.v("I7", "step counts of an every-step run are not 1,2,3,...", k=k, got=ns)
        if any(ts[i] > ts[i + 1] for i in range(len(ts) - 1)):
            self.v("I5", "reported times decrease", ts=ts)


class StubSolver:
    is_suitable_for_save_at = True
    is_suitable_for_save_every_step = True

    def __init__(self, w, compiled):
        self.w = w
        self.compiled = compiled

    def _call(self, fn, shape, *args):
        if self.compiled:
            def host(*a):
                return onp.asarray(fn(*a), dtype=onp.float64)

            return io_callback(host, shape, *args, ordered=True)
        return jnp.asarray(fn(*[onp.asarray(a) for a in args]), dtype=jnp.float64)

    def init(self, t, u, *, damp):
        del u, damp
        z = jnp.asarray(0.0, dtype=jnp.float64)
        return S(t=jnp.asarray(t, dtype=jnp.float64), tok=z, num_steps=z)

    def step(self, state, *, dt, damp):
        del damp
        new = self._call(self.w.h_step, F64, state.tok, state.t, dt)
        return S(t=state.t + dt, tok=new, num_steps=state.num_steps + 1.0)

    def _interp(self, kind, t, interp_from, interp_to):
        toks = self._call(self.w.h_interp, F64x3, jnp.asarray(float(kind)), t, interp_from.tok, interp_from.t,
                          interp_to.tok, interp_to.t)
        t = jnp.asarray(t, dtype=jnp.float64)
        t_sol = interp_to.t if kind == 1 else t
        sol = S(t=t_sol, tok=toks[0], num_steps=interp_to.num_steps)
        step_from = S(t=interp_to.t, tok=toks[1], num_steps=interp_to.num_steps)
        new_from = S(t=t_sol, tok=toks[2], num_steps=interp_from.num_steps)
        return sol, utilities.InterpResult(step_from=step_from, interp_from=new_from)

    def interpolate_fwd(self, *, t, interp_from, interp_to):
        return self._interp(0, t, interp_from, interp_to)

    def interpolate_fwd_at_t1(self, *, t, interp_from, interp_to):
        return self._interp(1, t, interp_from, interp_to)

    def userfriendly_output(self, *, solution0, solution, solution1):
        del solution1
        return tree.tree_array_prepend(solution0, solution)


class StubError:
    def __init__(self, w, compiled):
        self.w = w
        self.compiled = compiled

    def init_error(self):
        return ()

    def estimate_error_norm(self, state, previous, proposed, *, dt, atol, rtol, damp):
        del atol, rtol, damp
        if self.compiled:
            def host(*a):
                return onp.asarray(self.w.h_err(*a), dtype=onp.float64)

            ep = io_callback(host, F64, previous.tok, proposed.tok, previous.t, dt, ordered=True)
        else:
            ep = jnp.asarray(self.w.h_err(previous.tok, proposed.tok, previous.t, dt), dtype=jnp.float64)
        return ep, state


class RecControl:
    """Recording proxy around a real controller."""

    def __init__(self, inner, w, compiled, kind):
        self.inner = inner
        self.w = w
        self.compiled = compiled
        self.kind = kind

    def init(self, dt, /):
        return self.inner.init(dt)

    def apply(self, dt, state, /, *, error_power):
        out, st = self.inner.apply(dt, state, error_power=error_power)
        mi = state if self.kind == "PI" else jnp.asarray(0.0)
        mo = st if self.kind == "PI" else jnp.asarray(0.0)
        if self.compiled:
            def host(*a):
                return onp.asarray(self.w.h_ctrl(*a), dtype=onp.float64)

            z = io_callback(host, F64, dt, error_power, out, mi, mo, ordered=True)
            out = out + 0.0 * z
        else:
            self.w.h_ctrl(dt, error_power, out, mi, mo)
        return out, st
