"""IVP worlds with independently known solutions (closed forms, or 30-digit mp.odefun references
for polynomial systems).  Every right-hand side is a polynomial coefficient table (refmodel.Poly),
so the system under test (jnp) and the reference (mp) evaluate exactly the same function."""

import mpmath as mp

from sim.refmodel import Poly

mpf = mp.mpf


def _lin(d, i, j, c, order=1):
    es = [0] * (order * d)
    es[j] = 1
    return [c, es, 0]


def make(name, p):
    """Returns dict(poly, u0, du0, order, d, exact(t)->list of mp values of u(t))."""
    if name == "linear_forced":  # u' = a u + b
        a, b_, u0 = p["a"], p["b"], p["u0"]
        poly = Poly(1, 1, [[[a, [1], 0], [b_, [0], 0]]])

        def exact(t):
            a_, bb, u = mpf(a), mpf(b_), mpf(u0)
            return [(u + bb / a_) * mp.exp(a_ * t) - bb / a_]

        return dict(poly=poly, u0=[u0], du0=[0.0], order=1, d=1, exact=exact, lipschitz=abs(a))
    if name == "logistic":  # u' = r u (1 - u)
        r, u0 = p["r"], p["u0"]
        poly = Poly(1, 1, [[[r, [1], 0], [-r, [2], 0]]])

        def exact(t):
            rr, u = mpf(r), mpf(u0)
            e = mp.exp(rr * t)
            return [u * e / (1 + u * (e - 1))]

        return dict(poly=poly, u0=[u0], du0=[0.0], order=1, d=1, exact=exact, lipschitz=abs(r))
    if name == "riccati":  # u' = -c u^2  ->  u = u0 / (1 + c u0 t)
        c, u0 = p["c"], p["u0"]
        poly = Poly(1, 1, [[[-c, [2], 0]]])

        def exact(t):
            return [mpf(u0) / (1 + mpf(c) * mpf(u0) * t)]

        return dict(poly=poly, u0=[u0], du0=[0.0], order=1, d=1, exact=exact, lipschitz=2 * abs(c * u0))
    if name == "time_growth":  # u' = k t u  ->  u0 exp(k t^2 / 2)
        k, u0 = p["k"], p["u0"]
        poly = Poly(1, 1, [[[k, [1], 1]]])

        def exact(t):
            return [mpf(u0) * mp.exp(mpf(k) * t * t / 2)]

        return dict(poly=poly, u0=[u0], du0=[0.0], order=1, d=1, exact=exact, lipschitz=abs(k) * 2)
    if name == "decay_large":  # u' = -a (u - L): relaxation to a large level L (|u| far from 1)
        a, L, u0 = p["a"], p["L"], p["u0"]
        poly = Poly(1, 1, [[[-a, [1], 0], [a * L, [0], 0]]])

        def exact(t):
            return [mpf(L) + (mpf(u0) - mpf(L)) * mp.exp(-mpf(a) * t)]

        return dict(poly=poly, u0=[u0], du0=[0.0], order=1, d=1, exact=exact, lipschitz=abs(a))
    if name == "rotation":  # u' = [[0, w], [-w, 0]] u
        w, u0 = p["w"], p["u0v"]
        poly = Poly(2, 1, [[[w, [0, 1], 0]], [[-w, [1, 0], 0]]])

        def exact(t):
            c, s = mp.cos(mpf(w) * t), mp.sin(mpf(w) * t)
            return [c * mpf(u0[0]) + s * mpf(u0[1]), -s * mpf(u0[0]) + c * mpf(u0[1])]

        return dict(poly=poly, u0=list(u0), du0=[0.0, 0.0], order=1, d=2, exact=exact, lipschitz=abs(w))
    if name == "harmonic2":  # u'' = -w^2 u
        w, u0, v0 = p["w"], p["u0"], p["v0"]
        poly = Poly(1, 2, [[[-w * w, [1, 0], 0]]])

        def exact(t):
            return [mpf(u0) * mp.cos(mpf(w) * t) + mpf(v0) / mpf(w) * mp.sin(mpf(w) * t)]

        return dict(poly=poly, u0=[u0], du0=[v0], order=2, d=1, exact=exact, lipschitz=abs(w))
    if name == "damped2":  # u'' = -2 z w u' - w^2 u  (underdamped)
        w, z, u0, v0 = p["w"], p["z"], p["u0"], p["v0"]
        poly = Poly(1, 2, [[[-w * w, [1, 0], 0], [-2 * z * w, [0, 1], 0]]])

        def exact(t):
            ww, zz = mpf(w), mpf(z)
            wd = ww * mp.sqrt(1 - zz * zz)
            A = mpf(u0)
            B = (mpf(v0) + zz * ww * A) / wd
            return [mp.exp(-zz * ww * t) * (A * mp.cos(wd * t) + B * mp.sin(wd * t))]

        return dict(poly=poly, u0=[u0], du0=[v0], order=2, d=1, exact=exact, lipschitz=abs(w) * (1 + 2 * z))
    if name == "forced_decay2d":  # decoupled pair: u1' = k t u1 ; u2' = -u2 + c t   (non-autonomous, closed form)
        k, c, u0 = p["k"], p["c"], p["u0v"]
        poly = Poly(2, 1, [[[k, [1, 0], 1]], [[-1.0, [0, 1], 0], [c, [0, 0], 1]]])

        def exact(t):
            return [mpf(u0[0]) * mp.exp(mpf(k) * t * t / 2), mpf(c) * (t - 1) + (mpf(u0[1]) + mpf(c)) * mp.exp(-t)]

        return dict(poly=poly, u0=list(u0), du0=[0.0, 0.0], order=1, d=2, exact=exact, lipschitz=max(abs(k) * 2, 1.0))
    if name in ("lotka_volterra", "vanderpol", "brusselator"):
        if name == "lotka_volterra":
            a, b_, c, dd = p["a"], p["b"], p["c"], p["dd"]
            poly = Poly(2, 1, [[[a, [1, 0], 0], [-b_, [1, 1], 0]], [[-c, [0, 1], 0], [dd, [1, 1], 0]]])
            lip = max(a, c) + 2 * max(b_, dd)
        elif name == "vanderpol":
            mu = p["mu"]
            poly = Poly(2, 1, [[[1.0, [0, 1], 0]], [[mu, [0, 1], 0], [-mu, [2, 1], 0], [-1.0, [1, 0], 0]]])
            lip = 1 + 3 * mu
        else:
            A, B = p["A"], p["B"]
            poly = Poly(2, 1, [[[A, [0, 0], 0], [1.0, [2, 1], 0], [-(B + 1), [1, 0], 0]], [[B, [1, 0], 0], [-1.0, [2, 1], 0]]])
            lip = B + 1 + 4
        u0 = list(p["u0v"])
        cache = {}

        def exact(t):
            key = mp.nstr(t, 25)
            if "f" not in cache:
                old = mp.mp.dps
                mp.mp.dps = 30
                try:
                    cache["f"] = mp.odefun(lambda tt, y: poly.eval_mp(list(y), tt), 0, [mpf(x) for x in u0], tol=mpf(10) ** -22)
                finally:
                    mp.mp.dps = old
            if key not in cache:
                old = mp.mp.dps
                mp.mp.dps = 30
                try:
                    cache[key] = [mpf(v) for v in cache["f"](t)]
                finally:
                    mp.mp.dps = old
            return cache[key]

        return dict(poly=poly, u0=u0, du0=[0.0, 0.0], order=1, d=2, exact=exact, lipschitz=lip, t0_must_be_zero=True)
    raise ValueError(name)


def gen_world(src, allow_odefun=True):
    names = [("linear_forced", 2), ("logistic", 2), ("riccati", 1.5), ("time_growth", 2), ("decay_large", 1.5), ("rotation", 2),
             ("harmonic2", 1.5), ("damped2", 1.5), ("forced_decay2d", 2)]
    if allow_odefun:
        names += [("lotka_volterra", 1.5), ("vanderpol", 1), ("brusselator", 0.7)]
    name = src.weighted("world", names)
    r = src.rounded
    if name == "linear_forced":
        p = {"a": r("a", -2.0, -0.3), "b": r("b", -1.0, 1.0), "u0": r("u0", 0.3, 1.5)}
    elif name == "logistic":
        p = {"r": r("r", 0.5, 2.5), "u0": r("u0", 0.05, 0.6)}
    elif name == "riccati":
        p = {"c": r("c", 0.3, 1.5), "u0": r("u0", 0.3, 1.5)}
    elif name == "time_growth":
        p = {"k": r("k", -2.0, 1.2), "u0": r("u0", 0.3, 1.5)}
    elif name == "decay_large":
        p = {"a": r("a", 0.5, 2.0), "L": src.choice("L", [2000.0, 50.0, 1e-3, 1e-5]), "u0": src.choice("u0", [1.0, 10.0, 0.1])}
    elif name == "rotation":
        p = {"w": r("w", 0.5, 2.5), "u0v": [r("u0", 0.3, 1.2), r("u1", -1.0, 1.0)]}
    elif name == "harmonic2":
        p = {"w": r("w", 0.5, 2.5), "u0": r("u0", 0.3, 1.2), "v0": r("v0", -1.0, 1.0)}
    elif name == "damped2":
        p = {"w": r("w", 0.8, 2.5), "z": r("z", 0.05, 0.6), "u0": r("u0", 0.3, 1.2), "v0": r("v0", -1.0, 1.0)}
    elif name == "forced_decay2d":
        p = {"k": r("k", -1.5, 1.0), "c": r("c", -1.0, 1.0), "u0v": [r("u0", 0.3, 1.2), r("u1", -1.0, 1.0)]}
    elif name == "lotka_volterra":
        p = {"a": r("a", 0.4, 1.0), "b": r("b", 0.3, 1.0), "c": r("c", 0.4, 1.0), "dd": r("dd", 0.3, 1.0),
             "u0v": [r("u0", 0.5, 1.5), r("u1", 0.5, 1.5)]}
    elif name == "vanderpol":
        p = {"mu": r("mu", 0.1, 0.8), "u0v": [r("u0", 0.5, 1.5), r("u1", -0.5, 0.5)]}
    else:
        p = {"A": r("A", 0.5, 1.0), "B": r("B", 1.0, 2.0), "u0v": [r("u0", 0.8, 1.5), r("u1", 0.8, 1.5)]}
    w = make(name, p)
    T = min(src.uniform("T", 0.5, 2.0), 3.0 / max(w["lipschitz"], 1e-9))
    return {"name": name, "par": p, "T": float(T)}
