#!/venv/bin/python
"""Regenerate MANIFEST.json from checks/registry.py (single source of truth) and validate it."""
import json, os, sys
VERIF = os.path.dirname(os.path.dirname(os.path.abspath(__file__)))
sys.path.insert(0, VERIF)
from checks.registry import META, NOT_APPLICABLE, PENDING

checks = []
for pid in sorted(META):
    m = META[pid]
    checks.append({
        "property_id": pid,
        "quick_cmd": f"./check {pid} --tier quick",
        "thorough_cmd": f"./check {pid} --tier thorough",
        "evidence_file": f"/verif/evidence/{pid}.json",
        "replay_cmd_template": "./check replay {path}",
        "engine": "probsim",
        "level_claimed": {"category": m["LEVEL"], "text": m["LEVEL_TEXT"], "design_ref": m.get("DESIGN_REF", "DESIGN.md §3 " + pid)},
        "level_note": m["LEVEL_NOTE"],
        "technique": m["TECHNIQUE"],
    })
na = [{"property_id": k, "reason": v} for k, v in sorted(NOT_APPLICABLE.items())]
na += [{"property_id": k, "reason": v} for k, v in sorted(PENDING.items()) if k not in META]
man = {
    "version": 1,
    "setup_cmd": "./setup.sh",
    "hooks": {"guard": "PROBDIFFEQ_VERIF", "enable": "no source hooks: all seams are existing arguments / module attributes (DESIGN.md §2.1)",
              "baseline_off_cmd": "cd /repo && /venv/bin/python -m pytest -ra -q -p no:cacheprovider --timeout=900 --continue-on-collection-errors",
              "source_commits": [], "add_only": True},
    "engines": [{"name": "probsim", "path": "/verif/sim", "serves_properties": sorted(META),
                 "kind_free_text": "deterministic simulation of one IVP solve: seeded scenario generator, Python-stepped control-flow seam, scripted/recording peers, fault injection, mpmath reference model, seeded search with minimisation and fresh-process replay"}],
    "checks": checks,
    "not_applicable": na,
    "notes": "See DESIGN.md. Every command honours VERIF_SEED and VERIF_TIER. Exit 2 + HARNESS-ERROR lines mean the harness failed (never reported as a violation).",
}
json.dump(man, open(os.path.join(VERIF, "MANIFEST.json"), "w"), indent=1)
try:
    import jsonschema
    jsonschema.validate(man, json.load(open("/root/.vp/MANIFEST.schema.json")))
    print("MANIFEST.json valid;", len(checks), "checks,", len(na), "not claimed")
except ImportError:
    print("written (jsonschema not available for validation)")
