#!/venv/bin/python
"""Confirm an agent-produced change (demo passes clean / fails patched, test suite passes with the
patch), run the given checks against it, and file it under /verif/seeded/<name>/.

usage: tools/keep_seeded.py <agent out dir> <name> --checks C02,C04 [--runs N]
"""
import argparse, json, os, shutil, subprocess, sys

VERIF = os.path.dirname(os.path.dirname(os.path.abspath(__file__)))
ap = argparse.ArgumentParser()
ap.add_argument("dir"); ap.add_argument("name"); ap.add_argument("--checks", default=""); ap.add_argument("--runs", type=int, default=None)
a = ap.parse_args()
cmd = [os.path.join(VERIF, "tools", "try_seeded.py"), a.dir, "--checks", a.checks, "--suite"]
if a.runs:
    cmd += ["--runs", str(a.runs)]
r = subprocess.run(cmd, text=True, capture_output=True)
print(r.stdout[-3000:], r.stderr[-500:])
d = os.path.abspath(a.dir)
tag = os.path.basename(os.path.dirname(os.path.dirname(d))) + "-" + os.path.basename(d)
res = json.load(open(f"/tmp/probsim-seeded-{tag}.json"))
ok = res.get("demo_clean") == 0 and res.get("demo_patched") not in (0, None) and "passed" in res.get("suite_tail", "") and "failed" not in res.get("suite_tail", "")
dst = os.path.join(VERIF, "seeded", a.name)
meta = json.load(open(os.path.join(d, "meta.json")))
meta["confirmed"] = {"demo_clean_exit": res.get("demo_clean"), "demo_patched_exit": res.get("demo_patched"),
                     "suite_with_patch": res.get("suite_tail"), "ok": ok}
meta["checks_run"] = {k: {"exit": v["exit"], "verdict": {0: "missed", 1: "caught", 2: "harness-error"}.get(v["exit"]), "lines": v["lines"][:4]}
                      for k, v in res.get("checks", {}).items()}
meta["ran_by_verifier"] = [" ".join(cmd)]
if ok:
    os.makedirs(dst, exist_ok=True)
    shutil.copy(os.path.join(d, "patch.diff"), dst)
    shutil.copy(os.path.join(d, "demo.py"), dst)
    json.dump(meta, open(os.path.join(dst, "meta.json"), "w"), indent=1)
    print("KEPT", a.name, {k: v["verdict"] for k, v in meta["checks_run"].items()})
else:
    print("NOT KEPT", a.name, meta["confirmed"])
