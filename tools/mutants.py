#!/venv/bin/python
"""Sensitivity self-test (not a registered check): apply small realistic mutants to a scratch
worktree of /repo (outside /repo and /verif), point the checks at it through VERIF_REPO, and
record which quick checks flag which mutant.  The worktree is removed afterwards.

usage: tools/mutants.py [--only C06] [--runs N] [--names a,b]
"""

import argparse
import json
import os
import shutil
import subprocess
import sys
import time

VERIF = os.path.dirname(os.path.dirname(os.path.abspath(__file__)))
sys.path.insert(0, VERIF)
WT = "/tmp/probsim-mutants/repo"

A = "probdiffeq/_ivpsolve/solvers_via_adaptive_steps.py"
CT = "probdiffeq/_ivpsolve/controllers.py"

# (name, [properties expected to flag it], file, old, new)
MUTANTS = [
    ("pi_memory_on_reject", ["C06"], CT,
     "error_norm_inv_prev = np.where(\n            error_power >= 1.0, error_power, error_norm_inv_prev\n        )",
     "error_norm_inv_prev = error_power"),
    ("no_clip", ["C06"], A, "dt = np.minimum(dt, t1 - state.step_from.t)", "dt = dt"),
    ("accept_at_0_9", ["C06"], A, "return state.acceptance_factor_proposed < 1.0", "return state.acceptance_factor_proposed < 0.9"),
    ("retry_from_proposal", ["C06"], A,
     "            error_step_from=state.error_step_from,\n            step_from=state.step_from,\n        )",
     "            error_step_from=state.error_step_from,\n            step_from=state_proposed,\n        )"),
    ("interp_from_not_rewired", ["C06", "C05"], A,
     "            step_from=interp_res.step_from,\n            interp_from=interp_res.interp_from,\n            control=state.control,\n            error_step_from=state.error_step_from,\n        )\n        return solution, new_state\n\n    def interp_at_t1",
     "            step_from=interp_res.step_from,\n            interp_from=state.interp_from,\n            control=state.control,\n            error_step_from=state.error_step_from,\n        )\n        return solution, new_state\n\n    def interp_at_t1"),
    ("branch_swap", ["C06"], A, "np.where(is_after_t1, 1, 2)", "np.where(is_after_t1, 2, 1)"),
    ("continue_without_eps", ["C06"], A, "do_continue = state_new.step_from.t + eps < t_next", "do_continue = state_new.step_from.t < t_next"),
    ("integral_no_factor_min", ["C06"], CT,
     "        scale_factor = np.maximum(self.factor_min, scale_factor_clipped_min)\n        return scale_factor * dt, ()",
     "        scale_factor = scale_factor_clipped_min\n        return scale_factor * dt, ()"),
    ("extract_interp_from_proposed", ["C06", "C05"], A,
     "            step_from=state.proposed,  # new!\n            interp_from=state.step_from,",
     "            step_from=state.proposed,  # new!\n            interp_from=state.proposed,"),
    ("at_t1_window_2eps", [], A, "is_after_t1 = state.step_from.t > t1 + eps", "is_after_t1 = state.step_from.t > t1 + 2 * eps"),
]


def sh(*a, **k):
    return subprocess.run(a, text=True, capture_output=True, **k)


def make_worktree():
    shutil.rmtree(os.path.dirname(WT), ignore_errors=True)
    os.makedirs(os.path.dirname(WT), exist_ok=True)
    sh("git", "-C", "/repo", "worktree", "prune")
    r = sh("git", "-C", "/repo", "worktree", "add", "--detach", WT, "HEAD")
    if r.returncode != 0:
        sys.exit("worktree failed: " + r.stderr)
    # uncommitted edits of /repo are part of "the current tree"
    d = sh("git", "-C", "/repo", "diff", "HEAD").stdout
    if d.strip():
        subprocess.run(["git", "-C", WT, "apply"], input=d, text=True, check=True)


def drop_worktree():
    sh("git", "-C", "/repo", "worktree", "remove", "--force", WT)
    shutil.rmtree(os.path.dirname(WT), ignore_errors=True)
    sh("git", "-C", "/repo", "worktree", "prune")


def main():
    ap = argparse.ArgumentParser()
    ap.add_argument("--only", default=None)
    ap.add_argument("--names", default=None)
    ap.add_argument("--runs", type=int, default=None)
    ap.add_argument("--extra", default=None, help="python file defining MUTANTS to add")
    a = ap.parse_args()
    muts = list(MUTANTS)
    try:
        from tools import mutants_more

        muts += mutants_more.MUTANTS
    except ImportError:
        pass
    if a.names:
        muts = [m for m in muts if m[0] in a.names.split(",")]
    make_worktree()
    results = []
    try:
        for name, props, path, old, new in muts:
            targets = [a.only] if a.only else (props or ["C06"])
            full = os.path.join(WT, path)
            src = open(full).read()
            if src.count(old) != 1:
                print(f"{name}: pattern found {src.count(old)} times -- skipped")
                results.append({"mutant": name, "error": "pattern"})
                continue
            open(full, "w").write(src.replace(old, new))
            try:
                for pid in targets:
                    t0 = time.time()
                    cmd = [os.path.join(VERIF, "check"), pid]
                    if a.runs:
                        cmd += ["--runs", str(a.runs)]
                    env = dict(os.environ, VERIF_REPO=WT, VERIF_EVIDENCE_DIR="/tmp/probsim-mutants/evidence",
                               VERIF_REPLAY_DIR="/tmp/probsim-mutants/replays", VERIF_WORK_DIR="/tmp/probsim-mutants/work")
                    r = sh(*cmd, env=env)
                    lines = [ln for ln in r.stdout.splitlines() if ln.startswith(("VIOLATION", "[" + pid + "] violation", "HARNESS"))]
                    expect = pid in props
                    verdict = "caught" if r.returncode == 1 else ("MISSED" if expect else "silent (not a violation of the property)")
                    if r.returncode == 2:
                        verdict = "harness-error"
                    print(f"{name:32s} {pid} exit={r.returncode} {verdict} {time.time() - t0:.0f}s  " + " | ".join(lines[:2])[:200], flush=True)
                    results.append({"mutant": name, "check": pid, "exit": r.returncode, "expected": expect, "lines": lines[:3]})
            finally:
                open(full, "w").write(src)
    finally:
        drop_worktree()
    json.dump(results, open("/tmp/probsim-mutants-results.json", "w"), indent=1)


if __name__ == "__main__":
    main()
