"""More mutants (per property), same format as tools/mutants.py: (name, [checks expected to flag], file, old, new)."""
D = "probdiffeq/_probdiffeq/ssm_impl_dense.py"
I = "probdiffeq/_probdiffeq/ssm_impl_isotropic.py"
B = "probdiffeq/_probdiffeq/ssm_impl_blockdiag.py"
S = "probdiffeq/_probdiffeq/solvers.py"
E = "probdiffeq/_probdiffeq/estimators_and_losses.py"
U = "probdiffeq/_probdiffeq/utilities.py"
A = "probdiffeq/_ivpsolve/solvers_via_adaptive_steps.py"
F = "probdiffeq/_ivpsolve/solvers_via_fixed_steps.py"
J = "probdiffeq/_probdiffeq/jacobians.py"
T = "probdiffeq/_probdiffeq/taylor_points.py"
Z = "probdiffeq/_ivpsolve/stepsize_initialisers.py"

MUTANTS = [
    # ---- C02
    ("dense_noise_no_sqrt_dt", ["C02", "C09"], D, "self.q0, np.sqrt(np.abs(dt)) * output_scale * self.Q, self.tree_flatten", "self.q0, np.abs(dt) * output_scale * self.Q, self.tree_flatten"),
    ("dense_ts1_offset_dropped", ["C02"], D, "        fx = fx - J @ xi\n", "        fx = fx\n"),
    ("dense_damp_as_variance", ["C02"], D, "std = tree.tree_map(lambda x: np.ones_like(x) * damp, mean)", "std = tree.tree_map(lambda x: np.ones_like(x) * np.sqrt(damp), mean)"),
    ("precon_power_off_by_one", ["C02", "C09"], U, "scaling_vector = np.power(dt, powers) / scales", "scaling_vector = np.power(dt, powers + 1) / scales"),
    ("dense_revert_gain_sign", ["C02", "C08"], D, "mean_corrected = mean - gain @ mean_observed", "mean_corrected = mean + gain @ mean_observed"),
    ("mle_new_term_half", ["C02", "C04"], S, "x2 = np.sqrt(1 / (num_data + 1)) * new_term", "x2 = np.sqrt(1 / (num_data + 2)) * new_term"),
    ("dynamic_scale_not_used", ["C02", "C04"], S, "transition = state.prior.transition(dt=dt, output_scale=output_scale)\n        u, prediction = self.strategy.predict(\n            state.solution_full, transition=transition", "transition = state.prior.transition(dt=dt, output_scale=ones)\n        u, prediction = self.strategy.predict(\n            state.solution_full, transition=transition"),
    # ---- C03 / C05
    ("fixedgrid_smoother_shift_reintroduced", ["C03", "C01"], F, "solution0=state0, solution=result, solution1=interp_res.step_from", "solution0=state0, solution=result, solution1=s_new"),
    ("fixedpoint_no_identity_reset", ["C03", "C05"], E, "        resume_from = MarkovSequence(\n            posterior_t1.marginal,\n            conditional=cond_identity,\n            reverse=posterior_t1.reverse,\n        )\n        interp_res = utilities.InterpResult(\n            step_from=resume_from, interp_from=resume_from\n        )\n\n        interpolated = posterior_t1", "        resume_from = posterior_t1\n        interp_res = utilities.InterpResult(\n            step_from=resume_from, interp_from=resume_from\n        )\n\n        interpolated = posterior_t1"),
    ("filter_interp_scale_wrong_side", ["C05", "C04"], S, "        # Domain is (t0, t1]; thus, take the output scale from interp_to\n        output_scale = interp_to.output_scale", "        # Domain is (t0, t1]; thus, take the output scale from interp_to\n        output_scale = interp_from.output_scale"),
    ("mle_num_data_twice", ["C04"], S, "auxiliary = (cstate, output_scale_running, num_data + 1)", "auxiliary = (cstate, output_scale_running, num_data + 2)"),
    ("mle_correction_over_n", ["C04"], S, "output_scale = output_scale / np.sqrt(solution.num_steps[-1])", "output_scale = output_scale / solution.num_steps[-1]"),
    # ---- C07
    ("error_power_rate_plus_one", ["C07"], S, "        error_power = error_norm ** (-1.0 / error_contraction_rate)\n        return error_power, state\n\n\nclass error_state_std", "        error_power = error_norm ** (-1.0 / (error_contraction_rate + 1))\n        return error_power, state\n\n\nclass error_state_std"),
    ("error_reference_prev_only", ["C07"], S, "        reference = np.maximum(np.abs(u0), np.abs(u1))\n\n        # Turn the unscaled absolute error into a relative one.\n        # This is a generalisation", "        reference = np.abs(u0)\n\n        # Turn the unscaled absolute error into a relative one.\n        # This is a generalisation"),
    # ---- C12 / C13
    ("lml_average_off_by_one", ["C12"], E, "logpdf1 = (logpdf * num_data + logpdf_n) / (num_data + 1)", "logpdf1 = (logpdf * num_data + logpdf_n) / (num_data + 2)"),
    ("sample_key_not_split", ["C13"], E, "            key, subkey = random.split(key, num=2)\n            smp_flat = predicted.sample_flat(subkey)", "            subkey = key\n            smp_flat = predicted.sample_flat(subkey)"),
    # ---- C14 / C15
    ("blockdiag_rms_normalised_by_d", ["C14", "C04"], B, None, None),
    ("branch_where_guard_removed", [], A, "branch_idx = np.where(is_before_t1, 0, np.where(is_after_t1, 1, 2))", "branch_idx = np.where(is_after_t1, 1, np.where(is_before_t1, 0, 2))"),
    # ---- C17 / C18 / C19
    ("jac_diag_transposed", ["C17"], J, "        dfx_diagonal = linalg.einsum(\"mdnd->dmn\", dfx)", "        dfx_diagonal = linalg.einsum(\"mdnd->dnm\", dfx)"),
    ("hnw_h1_exponent", ["C18"], Z, "(0.01 / np.maximum(d1, d2)) ** (1.0 / (error_contraction_rate + 1.0)),", "(0.01 / np.maximum(d1, d2)) ** (1.0 / error_contraction_rate),"),
    ("gn_iters_off_by_one", ["C19"], T, '            "iters": final.i,', '            "iters": final.i + 1,'),
]
MUTANTS = [m for m in MUTANTS if m[3] is not None]
