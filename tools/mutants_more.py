"""More mutants (per property), same format as tools/mutants.py."""
D = "probdiffeq/_probdiffeq/ssm_impl_dense.py"
I = "probdiffeq/_probdiffeq/ssm_impl_isotropic.py"
B = "probdiffeq/_probdiffeq/ssm_impl_blockdiag.py"
S = "probdiffeq/_probdiffeq/solvers.py"
E = "probdiffeq/_probdiffeq/estimators_and_losses.py"
U = "probdiffeq/_probdiffeq/utilities.py"
CH = "probdiffeq/util/cholesky_util.py"

MUTANTS = [
    # ---- C02
    ("dense_noise_no_sqrt_dt", ["C02"], D, "self.q0, np.sqrt(np.abs(dt)) * output_scale * self.Q, self.tree_flatten", "self.q0, np.abs(dt) * output_scale * self.Q, self.tree_flatten"),
    ("dense_ts1_offset_dropped", ["C02"], D, "        fx = fx - J @ xi\n", "        fx = fx\n"),
    ("dense_damp_as_variance", ["C02"], D, "std = tree.tree_map(lambda x: np.ones_like(x) * damp, mean)", "std = tree.tree_map(lambda x: np.ones_like(x) * np.sqrt(damp), mean)"),
    ("precon_power_off_by_one", ["C02"], U, "scaling_vector = np.power(dt, powers) / scales", "scaling_vector = np.power(dt, powers + 1) / scales"),
    ("dense_revert_gain_sign", ["C02"], D, "mean_corrected = mean - gain @ mean_observed", "mean_corrected = mean + gain @ mean_observed"),
    ("iso_marginalise_no_noise", ["C02"], I, None, None),
    ("mle_new_term_half", ["C02", "C04"], S, "x2 = np.sqrt(1 / (num_data + 1)) * new_term", "x2 = np.sqrt(1 / (num_data + 2)) * new_term"),
    ("dynamic_scale_not_used", ["C02", "C04"], S, "transition = state.prior.transition(dt=dt, output_scale=output_scale)\n        u, prediction = self.strategy.predict(\n            state.solution_full, transition=transition", "transition = state.prior.transition(dt=dt, output_scale=ones)\n        u, prediction = self.strategy.predict(\n            state.solution_full, transition=transition"),
    ("blockdiag_rms_normalised_by_d", ["C02", "C04"], B, None, None),
]
MUTANTS = [m for m in MUTANTS if m[3] is not None]
