#!/venv/bin/python
"""Re-run the checks recorded for kept seeded changes with the current machinery (no test suite, no demo:
those were confirmed when the change was kept) and refresh 'checks_run' in /verif/seeded/<name>/meta.json.

usage: tools/recheck_seeded.py [names ...] [--jobs J]
Every change is applied in a scratch worktree of /repo under /tmp/probsim-recheck, removed afterwards.
"""
import argparse, json, os, shutil, subprocess, sys
from concurrent.futures import ThreadPoolExecutor

VERIF = os.path.dirname(os.path.dirname(os.path.abspath(__file__)))
RUNS = {"C06": 400, "C19": 400}


def sh(cmd, **k):
    return subprocess.run(cmd, text=True, capture_output=True, **k)


def one(name):
    d = os.path.join(VERIF, "seeded", name)
    meta = json.load(open(os.path.join(d, "meta.json")))
    base = f"/tmp/probsim-recheck/{name}"
    wt = base + "/repo"
    shutil.rmtree(base, ignore_errors=True)
    os.makedirs(base)
    r = sh(["git", "-C", "/repo", "worktree", "add", "--detach", wt, "HEAD"])
    if r.returncode:
        return name, "worktree failed: " + r.stderr[-200:]
    try:
        r = sh(["git", "-C", wt, "apply", os.path.join(d, "patch.diff")])
        if r.returncode:
            return name, "patch does not apply: " + r.stderr[-200:]
        out = {}
        for pid in meta.get("checks_run", {}):
            cmd = [os.path.join(VERIF, "check"), pid, "--seed", "0"]
            if pid in RUNS:
                cmd += ["--runs", str(RUNS[pid])]
            env = dict(os.environ, VERIF_REPO=wt, VERIF_EVIDENCE_DIR=base + "/evidence", VERIF_REPLAY_DIR=base + "/replays",
                       VERIF_WORK_DIR=base + "/work")
            r = sh(cmd, env=env)
            lines = [ln.replace(base, "<scratch>") for ln in r.stdout.splitlines()
                     if ln.startswith(("VIOLATION", f"[{pid}] violation", "HARNESS"))]
            out[pid] = {"exit": r.returncode, "verdict": {0: "missed", 1: "caught", 2: "harness-error"}.get(r.returncode, "?"),
                        "lines": [ln[:400] for ln in lines[:4]]}
        meta["checks_run"] = out
        head = sh(["git", "-C", VERIF, "rev-parse", "--short", "HEAD"]).stdout.strip()
        meta["rechecked"] = {"verif_commit": head, "tier": "quick", "seed": 0}
        json.dump(meta, open(os.path.join(d, "meta.json"), "w"), indent=1)
        return name, {k: v["verdict"] for k, v in out.items()}
    finally:
        sh(["git", "-C", "/repo", "worktree", "remove", "--force", wt])
        shutil.rmtree(base, ignore_errors=True)


def main():
    ap = argparse.ArgumentParser()
    ap.add_argument("names", nargs="*")
    ap.add_argument("--jobs", type=int, default=2)
    a = ap.parse_args()
    names = a.names or sorted(n for n in os.listdir(os.path.join(VERIF, "seeded")) if os.path.isdir(os.path.join(VERIF, "seeded", n)))
    sh(["git", "-C", "/repo", "worktree", "prune"])
    with ThreadPoolExecutor(a.jobs) as ex:
        for name, res in ex.map(one, names):
            print(name, res, flush=True)


if __name__ == "__main__":
    main()
