#!/venv/bin/python
"""Regenerate the table of DESIGN.md §9 from seeded/*/meta.json (between the markers)."""
import glob, json, os, re
VERIF = os.path.dirname(os.path.dirname(os.path.abspath(__file__)))
rows = []
for d in sorted(glob.glob(os.path.join(VERIF, "seeded", "*"))):
    mp = os.path.join(d, "meta.json")
    if not os.path.exists(mp):
        continue
    m = json.load(open(mp))
    name = os.path.basename(d)
    summ = re.sub(r"\s+", " ", str(m.get("summary", "")))[:230]
    needs = re.sub(r"\s+", " ", str(m.get("needs", "")))[:200]
    cr = m.get("checks_run", {})
    verdict = ", ".join(f"{k} {v['verdict']}" for k, v in cr.items())
    first = ""
    for k, v in cr.items():
        for ln in v.get("lines", []):
            if "violation class" in ln:
                first = re.sub(r"\s+", " ", ln.split("violation class", 1)[1])[:120]
                break
        if first:
            break
    note = m.get("note_by_verifier", "")
    rows.append(f"| {name} | {m.get('property')} | {summ} | {needs} | {verdict}{'; ' + note if note else ''} | {first} |")
tbl = "| change | property | what it does | what it needs to manifest | checks run -> verdict | first violation class reported |\n|---|---|---|---|---|---|\n" + "\n".join(rows)
p = os.path.join(VERIF, "DESIGN.md")
s = open(p).read()
a, b_ = "<!-- SEEDED-TABLE-BEGIN -->", "<!-- SEEDED-TABLE-END -->"
if a in s:
    s = s[: s.index(a) + len(a)] + "\n" + tbl + "\n" + s[s.index(b_):]
    open(p, "w").write(s)
print(len(rows), "rows")
