#!/venv/bin/python
"""Regenerate the table of DESIGN.md §9 from seeded/*/meta.json (between the markers)."""
import glob, json, os, re
VERIF = os.path.dirname(os.path.dirname(os.path.abspath(__file__)))
rows = []
for d in sorted(glob.glob(os.path.join(VERIF, "seeded", "*"))):
    mp = os.path.join(d, "meta.json")
    if not os.path.exists(mp):
        continue
    m = json.load(open(mp))
    name = os.path.basename(d)
    summ = re.sub(r"\s+", " ", str(m.get("summary", "")))[:230]
    needs = re.sub(r"\s+", " ", str(m.get("needs", "")))[:200]
    cr = m.get("checks_run", {})
    verdict = ", ".join(f"{k} {v['verdict']}" for k, v in cr.items())
    first = ""
    for k, v in cr.items():
        for ln in v.get("lines", []):
            if "violation class" in ln:
                first = re.sub(r"\s+", " ", ln.split("violation class", 1)[1])[:120]
                break
        if first:
            break
    note = m.get("note_by_verifier", "")
    rows.append(f"| {name} | {m.get('property')} | {summ} | {needs} | {verdict}{'; ' + note if note else ''} | {first} |")
tbl = "| change | property | what it does | what it needs to manifest | checks run -> verdict | first violation class reported |\n|---|---|---|---|---|---|\n" + "\n".join(rows)
p = os.path.join(VERIF, "DESIGN.md")
s = open(p).read()
a, b_ = "<!-- SEEDED-TABLE-BEGIN -->", "<!-- SEEDED-TABLE-END -->"
if a in s:
    s = s[: s.index(a) + len(a)] + "\n" + tbl + "\n" + s[s.index(b_):]
    open(p, "w").write(s)
print(len(rows), "rows")

# ---- built-in mutants (tools/mutants.py): last complete sweep, stored in seeded/mutants-results.json
mr = os.path.join(VERIF, "seeded", "mutants-results.json")
if os.path.exists(mr):
    res = json.load(open(mr))
    by = {}
    for x in res:
        by.setdefault(x["mutant"], []).append(x)
    rows = []
    for name, xs in by.items():
        cells = []
        first = ""
        for x in xs:
            if x.get("error"):
                cells.append("pattern not found")
                continue
            v = {1: "caught", 0: "silent", 2: "harness-error"}.get(x["exit"], "?")
            if x["exit"] == 0 and x.get("expected"):
                v = "MISSED"
            cells.append(f"{x['check']} {v}" + ("" if x.get("expected") else " (not expected to be a violation)"))
            if not first:
                for ln in x.get("lines", []):
                    if "violation class" in ln:
                        first = re.sub(r"\s+", " ", ln.split("violation class", 1)[1])[:110]
                        break
        rows.append(f"| {name} | {', '.join(cells)} | {first} |")
    tbl = "| mutant | quick checks run -> verdict | first violation class reported |\n|---|---|---|\n" + "\n".join(rows)
    s = open(p).read()
    a, b_ = "<!-- MUTANTS-TABLE-BEGIN -->", "<!-- MUTANTS-TABLE-END -->"
    if a in s:
        s = s[: s.index(a) + len(a)] + "\n" + tbl + "\n" + s[s.index(b_):]
        open(p, "w").write(s)
    print(len(rows), "mutants")
