#!/bin/bash
# Smoke test before committing: every check, a few runs each, scratch evidence/replay/work dirs. Prints one line per check.
cd "$(dirname "$0")/.."
S=${1:-0}; N=${2:-16}
out=$(mktemp -d /tmp/probsim-smoke.XXXX)
rc=0
for c in C01 C02 C03 C04 C05 C06 C07 C08 C09 C12 C13 C14 C15 C17 C18 C19 C20; do
  n=$N; [ $c = C20 ] && n=313
  VERIF_EVIDENCE_DIR=$out/ev VERIF_REPLAY_DIR=$out/rep VERIF_WORK_DIR=$out/work ./check $c --seed $S --runs $n > $out/$c.txt 2>&1
  e=$?
  [ $e -ne 0 ] && rc=1
  echo "$c exit=$e $(grep -E 'violation class|HARNESS' $out/$c.txt | head -2 | cut -c1-200 | tr '\n' ' ')"
done
rm -rf $out
exit $rc
