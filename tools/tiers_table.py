#!/opt/veriftools/pyvenv/bin/python
"""Fill the as-built tier table of DESIGN.md (between <!-- TIERS-TABLE-BEGIN/END -->) from checks/registry.py and
the committed evidence files (runs per hour measured by the last quick run that wrote evidence)."""
import json, os, sys

VERIF = os.path.dirname(os.path.dirname(os.path.abspath(__file__)))
sys.path.insert(0, VERIF)
from checks import registry

rows = ["| id | quick runs | thorough runs | wall cap quick / thorough (s) | last quick run: runs, wall, runs/hour (16 workers) |", "|---|---|---|---|---|"]
for pid in sorted(registry.META):
    m = registry.META[pid]
    ev = {}
    p = os.path.join(VERIF, "evidence", pid + ".json")
    if os.path.exists(p):
        ev = json.load(open(p))
    cov = ev.get("coverage", {})
    rows.append(f"| {pid} | {m['TIERS']['quick']} | {m['TIERS']['thorough']} | {m['WALLCAP']['quick']} / {m['WALLCAP']['thorough']} | "
                f"{cov.get('evaluations', '-')} ({ev.get('tier', '-')}), {ev.get('wall_s', '-')} s, {cov.get('runs_per_hour', '-')} |")
path = os.path.join(VERIF, "DESIGN.md")
s = open(path).read()
b, e = "<!-- TIERS-TABLE-BEGIN -->", "<!-- TIERS-TABLE-END -->"
if b not in s:
    sys.exit("markers missing")
s = s[: s.index(b) + len(b)] + "\n" + "\n".join(rows) + "\n" + s[s.index(e):]
open(path, "w").write(s)
print("\n".join(rows))
