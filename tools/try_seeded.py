#!/venv/bin/python
"""Confirm a seeded change and run checks against it, in a scratch worktree (never in /repo).

usage: tools/try_seeded.py <dir with patch.diff, demo.py> --checks C02,C04 [--runs N] [--suite] [--tier quick]
Prints: demo without/with patch, (optional) test-suite result with patch, each check's exit status.
"""
import argparse, json, os, shutil, subprocess, sys, time

VERIF = os.path.dirname(os.path.dirname(os.path.abspath(__file__)))


def sh(cmd, **k):
    return subprocess.run(cmd, text=True, capture_output=True, **k)


def main():
    ap = argparse.ArgumentParser()
    ap.add_argument("dir")
    ap.add_argument("--checks", default="")
    ap.add_argument("--runs", type=int, default=None)
    ap.add_argument("--suite", action="store_true")
    ap.add_argument("--seed", type=int, default=0)
    a = ap.parse_args()
    d = os.path.abspath(a.dir)
    tag = os.path.basename(os.path.dirname(os.path.dirname(d))) + "-" + os.path.basename(d)
    base = f"/tmp/probsim-seeded/{tag}"
    wt = base + "/repo"
    shutil.rmtree(base, ignore_errors=True)
    os.makedirs(base)
    sh(["git", "-C", "/repo", "worktree", "prune"])
    r = sh(["git", "-C", "/repo", "worktree", "add", "--detach", wt, "HEAD"])
    assert r.returncode == 0, r.stderr
    out = {"dir": d}
    try:
        env = dict(os.environ, PYTHONPATH=wt, JAX_PLATFORMS="cpu")
        demo = os.path.join(d, "demo.py")
        if os.path.exists(demo):
            r0 = sh(["timeout", "900", "/venv/bin/python", demo], env=env, cwd=wt)
            out["demo_clean"] = r0.returncode
        r = sh(["git", "-C", wt, "apply", os.path.join(d, "patch.diff")])
        assert r.returncode == 0, "patch does not apply: " + r.stderr
        if os.path.exists(demo):
            r1 = sh(["timeout", "900", "/venv/bin/python", demo], env=env, cwd=wt)
            out["demo_patched"] = r1.returncode
            out["demo_patched_tail"] = (r1.stdout + r1.stderr)[-300:]
        print(f"demo: clean exit={out.get('demo_clean')} patched exit={out.get('demo_patched')}", flush=True)
        if a.suite:
            t0 = time.time()
            r = sh(["timeout", "3000", "/venv/bin/python", "-m", "pytest", "-q", "-p", "no:cacheprovider", "-n", "6", "--timeout=900", "tests"], env=env, cwd=wt)
            out["suite_tail"] = r.stdout.strip().splitlines()[-1] if r.stdout.strip() else r.stderr[-200:]
            print(f"suite with patch: {out['suite_tail']} ({time.time() - t0:.0f}s)", flush=True)
        for pid in [c for c in a.checks.split(",") if c]:
            t0 = time.time()
            cmd = [os.path.join(VERIF, "check"), pid, "--seed", str(a.seed)]
            if a.runs:
                cmd += ["--runs", str(a.runs)]
            e2 = dict(os.environ, VERIF_REPO=wt, VERIF_EVIDENCE_DIR=base + "/evidence", VERIF_REPLAY_DIR=base + "/replays",
                      VERIF_WORK_DIR=base + "/work")
            r = sh(cmd, env=e2)
            lines = [ln for ln in r.stdout.splitlines() if ln.startswith(("VIOLATION", f"[{pid}] violation", "HARNESS", "KNOWN"))]
            verdict = {0: "MISSED", 1: "caught", 2: "harness-error"}.get(r.returncode, str(r.returncode))
            print(f"check {pid}: exit={r.returncode} {verdict} ({time.time() - t0:.0f}s)")
            for ln in lines[:4]:
                print("    " + ln[:260])
            out.setdefault("checks", {})[pid] = {"exit": r.returncode, "lines": lines[:6]}
    finally:
        sh(["git", "-C", "/repo", "worktree", "remove", "--force", wt])
        shutil.rmtree(base, ignore_errors=True)
        sh(["git", "-C", "/repo", "worktree", "prune"])
    json.dump(out, open(f"/tmp/probsim-seeded-{tag}.json", "w"), indent=1)


if __name__ == "__main__":
    main()
